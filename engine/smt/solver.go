package smt

import (
	"bufio"
	"fmt"
	"io"
	"os/exec"
	"strconv"
	"strings"
	"time"
)

type Result int

const (
	Sat Result = iota
	Unsat
	Unknown
	Error
)

func (r Result) String() string {
	return [...]string{"sat", "unsat", "unknown", "error"}[r]
}

type scope struct {
	named    []*Expr
	declared []string
}

// Solver is one long-lived solver process.
type Solver struct {
	cmd    *exec.Cmd
	in     io.WriteCloser
	out    *bufio.Reader
	named  map[*Expr]string
	decl   map[string]bool
	scopes []scope
	Log    io.Writer // optional transcript

	Queries   int
	NSat      int
	NUnsat    int
	NUnknown  int
	NErrors   int
	SolveTime time.Duration
	LastError string
}

func NewSolver(bin string, args ...string) (*Solver, error) {
	if bin == "" {
		bin = "z3"
		args = []string{"-in"}
	}
	cmd := exec.Command(bin, args...)
	in, err := cmd.StdinPipe()
	if err != nil {
		return nil, err
	}
	outp, err := cmd.StdoutPipe()
	if err != nil {
		return nil, err
	}
	cmd.Stderr = cmd.Stdout
	if err := cmd.Start(); err != nil {
		return nil, err
	}
	s := &Solver{cmd: cmd, in: in, out: bufio.NewReaderSize(outp, 1<<16),
		named: map[*Expr]string{}, decl: map[string]bool{}, scopes: []scope{{}}}
	s.send("(set-option :print-success false)")
	s.send("(set-option :timeout 20000)")
	return s, nil
}

func (s *Solver) Close() {
	s.in.Close()
	s.cmd.Process.Kill()
	s.cmd.Wait()
}

func (s *Solver) send(line string) {
	if s.Log != nil {
		fmt.Fprintln(s.Log, line)
	}
	io.WriteString(s.in, line)
	io.WriteString(s.in, "\n")
}

func (s *Solver) Push() {
	s.send("(push 1)")
	s.scopes = append(s.scopes, scope{})
}

func (s *Solver) Pop() {
	s.send("(pop 1)")
	sc := s.scopes[len(s.scopes)-1]
	s.scopes = s.scopes[:len(s.scopes)-1]
	for _, e := range sc.named {
		delete(s.named, e)
	}
	for _, d := range sc.declared {
		delete(s.decl, d)
	}
}

// Depth returns the number of pushed scopes.
func (s *Solver) Depth() int { return len(s.scopes) - 1 }

func (s *Solver) declare(name, text string) {
	if s.decl[name] {
		return
	}
	s.decl[name] = true
	sc := &s.scopes[len(s.scopes)-1]
	sc.declared = append(sc.declared, name)
	s.send(text)
}

// ref makes sure e (and its subterms) are defined in the solver and returns the text to refer to it.
func (s *Solver) ref(e *Expr) string {
	if n, ok := s.named[e]; ok {
		return n
	}
	switch e.Op {
	case "const":
		return constStr(e.W, e.Val)
	case "var":
		s.declare(e.Name, fmt.Sprintf("(declare-const %s %s)", e.Name, sortStr(e.W)))
		return e.Name
	}
	// iterative post-order to avoid deep recursion on long chains
	type frame struct {
		e *Expr
		i int
	}
	stack := []frame{{e, 0}}
	for len(stack) > 0 {
		f := &stack[len(stack)-1]
		if f.i < len(f.e.Args) {
			a := f.e.Args[f.i]
			f.i++
			if _, ok := s.named[a]; ok || a.Op == "const" {
				continue
			}
			if a.Op == "var" {
				s.declare(a.Name, fmt.Sprintf("(declare-const %s %s)", a.Name, sortStr(a.W)))
				continue
			}
			stack = append(stack, frame{a, 0})
			continue
		}
		cur := f.e
		stack = stack[:len(stack)-1]
		if _, ok := s.named[cur]; ok {
			continue
		}
		switch cur.Op {
		case "app":
			var as []string
			for _, a := range cur.Args {
				as = append(as, sortStr(a.W))
			}
			s.declare(cur.Name, fmt.Sprintf("(declare-fun %s (%s) %s)", cur.Name, strings.Join(as, " "), sortStr(cur.W)))
		case "table":
			if !s.decl[cur.Name] {
				iw := cur.Args[0].W
				var sb strings.Builder
				fmt.Fprintf(&sb, "(define-fun %s ((i %s)) %s ", cur.Name, sortStr(iw), sortStr(cur.W))
				n := len(cur.tbl)
				// balanced decision tree over the index bits (entries beyond n map to the last value)
				var gen func(lo, hi, bit int)
				gen = func(lo, hi, bit int) {
					if lo >= n {
						sb.WriteString(constStr(cur.W, cur.tbl[n-1]))
						return
					}
					same := true
					for k := lo; k <= hi; k++ {
						kk := k
						if kk >= n {
							kk = n - 1
						}
						if cur.tbl[kk] != cur.tbl[lo] {
							same = false
							break
						}
					}
					if same || lo == hi {
						sb.WriteString(constStr(cur.W, cur.tbl[lo]))
						return
					}
					mid := (lo + hi) / 2
					fmt.Fprintf(&sb, "(ite (= ((_ extract %d %d) i) #b0) ", bit, bit)
					gen(lo, mid, bit-1)
					sb.WriteByte(' ')
					gen(mid+1, hi, bit-1)
					sb.WriteByte(')')
				}
				bits := 0
				for (1 << uint(bits)) < n {
					bits++
				}
				if bits > iw {
					bits = iw
				}
				if bits == 0 {
					sb.WriteString(constStr(cur.W, cur.tbl[0]))
				} else if bits < iw {
					// indexes >= 2^bits are out of the table: callers bound-check first
					gen(0, (1<<uint(bits))-1, bits-1)
				} else {
					gen(0, (1<<uint(bits))-1, bits-1)
				}
				sb.WriteString(")")
				s.declare(cur.Name, sb.String())
			}
		}
		var sb strings.Builder
		name := "t" + strconv.Itoa(cur.id)
		fmt.Fprintf(&sb, "(define-fun %s () %s ", name, sortStr(cur.W))
		if len(cur.Args) == 0 {
			sb.WriteString(cur.head())
		} else {
			sb.WriteByte('(')
			sb.WriteString(cur.head())
			for _, a := range cur.Args {
				sb.WriteByte(' ')
				switch {
				case a.Op == "const":
					sb.WriteString(constStr(a.W, a.Val))
				case a.Op == "var":
					sb.WriteString(a.Name)
				default:
					sb.WriteString(s.named[a])
				}
			}
			sb.WriteByte(')')
		}
		sb.WriteByte(')')
		s.send(sb.String())
		s.named[cur] = name
		sc := &s.scopes[len(s.scopes)-1]
		sc.named = append(sc.named, cur)
	}
	return s.named[e]
}

// Define makes sure e is defined in the current scope.
func (s *Solver) Define(e *Expr) {
	if !e.IsConst() {
		s.ref(e)
	}
}

func (s *Solver) Assert(e *Expr) {
	if e.IsTrue() {
		return
	}
	r := s.ref(e)
	s.send("(assert " + r + ")")
}

func (s *Solver) readLine() string {
	line, err := s.out.ReadString('\n')
	if err != nil {
		return "(error \"solver died: " + err.Error() + "\")"
	}
	return strings.TrimSpace(line)
}

func (s *Solver) Check() Result {
	s.Queries++
	t0 := time.Now()
	s.send("(check-sat)")
	var r Result
	for {
		line := s.readLine()
		if line == "" {
			continue
		}
		switch {
		case line == "sat":
			r = Sat
			s.NSat++
		case line == "unsat":
			r = Unsat
			s.NUnsat++
		case line == "unknown" || line == "timeout":
			r = Unknown
			s.NUnknown++
		case strings.HasPrefix(line, "(error"):
			s.LastError = line
			s.NErrors++
			// an error line precedes the actual answer (or replaces it); keep reading only if
			// the solver is still going to answer check-sat. z3 answers check-sat anyway.
			if strings.Contains(line, "solver died") {
				s.SolveTime += time.Since(t0)
				return Error
			}
			// poison: read the check-sat answer and report Error
			ans := s.readLine()
			_ = ans
			s.SolveTime += time.Since(t0)
			return Error
		default:
			continue
		}
		break
	}
	s.SolveTime += time.Since(t0)
	return r
}

// CheckWith checks satisfiability of the current assertions plus extra, in a temporary scope.
func (s *Solver) CheckWith(extra ...*Expr) Result {
	// define the terms in the enclosing scope so the definitions (and tables) are sent once
	var refs []string
	for _, e := range extra {
		if !e.IsTrue() {
			refs = append(refs, s.ref(e))
		}
	}
	s.Push()
	for _, r := range refs {
		s.send("(assert " + r + ")")
	}
	r := s.Check()
	s.Pop()
	return r
}

// Values returns the model values of the given terms (after a Sat answer, in the same scope).
func (s *Solver) Values(es []*Expr) ([]uint64, error) {
	if len(es) == 0 {
		return nil, nil
	}
	var refs []string
	for _, e := range es {
		refs = append(refs, s.ref(e))
	}
	s.send("(get-value (" + strings.Join(refs, " ") + "))")
	// read balanced s-expression
	var sb strings.Builder
	depth := 0
	started := false
	for {
		line, err := s.out.ReadString('\n')
		if err != nil {
			return nil, err
		}
		sb.WriteString(line)
		for _, c := range line {
			if c == '(' {
				depth++
				started = true
			} else if c == ')' {
				depth--
			}
		}
		if started && depth <= 0 {
			break
		}
	}
	txt := sb.String()
	if strings.Contains(txt, "(error") {
		return nil, fmt.Errorf("get-value: %s", txt)
	}
	toks := tokenize(txt)
	// grammar: ( ( term value ) ( term value ) ... ) ; term may be nested, value is atom or (_ bvN w)
	pos := 1 // skip first "("
	out := make([]uint64, 0, len(es))
	for i := 0; i < len(es); i++ {
		if pos >= len(toks) || toks[pos] != "(" {
			return nil, fmt.Errorf("get-value parse: %s", txt)
		}
		pos++
		pos = skipSexp(toks, pos) // term
		v, np, err := parseVal(toks, pos)
		if err != nil {
			return nil, fmt.Errorf("%v in %s", err, txt)
		}
		pos = np
		if toks[pos] != ")" {
			return nil, fmt.Errorf("get-value parse2: %s", txt)
		}
		pos++
		out = append(out, v)
	}
	return out, nil
}

func tokenize(s string) []string {
	var toks []string
	cur := strings.Builder{}
	flush := func() {
		if cur.Len() > 0 {
			toks = append(toks, cur.String())
			cur.Reset()
		}
	}
	for _, c := range s {
		switch c {
		case '(', ')':
			flush()
			toks = append(toks, string(c))
		case ' ', '\n', '\t', '\r':
			flush()
		default:
			cur.WriteRune(c)
		}
	}
	flush()
	return toks
}

func skipSexp(toks []string, pos int) int {
	if toks[pos] != "(" {
		return pos + 1
	}
	depth := 0
	for {
		if toks[pos] == "(" {
			depth++
		} else if toks[pos] == ")" {
			depth--
		}
		pos++
		if depth == 0 {
			return pos
		}
	}
}

func parseVal(toks []string, pos int) (uint64, int, error) {
	t := toks[pos]
	switch {
	case t == "true":
		return 1, pos + 1, nil
	case t == "false":
		return 0, pos + 1, nil
	case strings.HasPrefix(t, "#x"):
		v, err := strconv.ParseUint(t[2:], 16, 64)
		return v, pos + 1, err
	case strings.HasPrefix(t, "#b"):
		v, err := strconv.ParseUint(t[2:], 2, 64)
		return v, pos + 1, err
	case t == "(":
		// (_ bv123 64)
		if toks[pos+1] == "_" && strings.HasPrefix(toks[pos+2], "bv") {
			v, err := strconv.ParseUint(toks[pos+2][2:], 10, 64)
			return v, pos + 5, err
		}
	}
	return 0, pos, fmt.Errorf("cannot parse value token %q", t)
}
