// Package smt builds bit-vector/boolean terms with constant folding and talks
// to an SMT-LIB2 solver process (z3 -in) incrementally.
package smt

import (
	"fmt"
	"strings"
)

// Expr is a term. W==0 means Bool, W>0 a bit-vector of that width.
type Expr struct {
	Op   string // "const","var","not","and","or","ite","=", bv ops, "extract","zext","sext","concat","app"
	Args []*Expr
	W    int
	Val  uint64 // const value (masked); for bool: 0/1
	Name string // var or function name
	Hi   int    // extract hi / ext amount
	Lo   int
	id   int
	tbl  []uint64
}

var nextID = 1

func mk(op string, w int, args ...*Expr) *Expr {
	e := &Expr{Op: op, W: w, Args: args, id: nextID}
	nextID++
	return e
}

func mask(w int) uint64 {
	if w >= 64 {
		return ^uint64(0)
	}
	return (uint64(1) << uint(w)) - 1
}

func Const(w int, v uint64) *Expr {
	if w > 64 {
		panic("smt.Const: width > 64; use WideConst")
	}
	e := mk("const", w)
	e.Val = v & mask(w)
	return e
}

// WideConst builds a constant wider than 64 bits from a signed 64-bit value (never folded).
func WideConst(w int, v int64) *Expr {
	if w <= 64 {
		return Const(w, uint64(v))
	}
	return SignExt(w-64, Const(64, uint64(v)))
}

// WidePow2 returns 2^k as a w-bit term (w may exceed 64).
func WidePow2(w int, k int) *Expr {
	if w <= 64 {
		return Const(w, uint64(1)<<uint(k))
	}
	if k < 63 {
		return WideConst(w, int64(1)<<uint(k))
	}
	// 2^k = (zero_extend 2^(k) within k+1 bits) ...
	// build as concat-free shift of a zero-extended 1
	one := ZeroExt(w-64, Const(64, 1))
	return mk("bvshl", w, one, ZeroExt(w-64, Const(64, uint64(k))))
}

var True = &Expr{Op: "const", W: 0, Val: 1, id: -1}
var False = &Expr{Op: "const", W: 0, Val: 0, id: -2}

func Bool(b bool) *Expr {
	if b {
		return True
	}
	return False
}

func Var(name string, w int) *Expr {
	e := mk("var", w)
	e.Name = name
	return e
}

func (e *Expr) IsConst() bool { return e.Op == "const" }
func (e *Expr) IsTrue() bool  { return e.Op == "const" && e.W == 0 && e.Val == 1 }
func (e *Expr) IsFalse() bool { return e.Op == "const" && e.W == 0 && e.Val == 0 }

// SignedVal returns the constant interpreted as signed.
func (e *Expr) SignedVal() int64 {
	if e.W >= 64 {
		return int64(e.Val)
	}
	if e.Val&(uint64(1)<<uint(e.W-1)) != 0 {
		return int64(e.Val | ^mask(e.W))
	}
	return int64(e.Val)
}

func Not(a *Expr) *Expr {
	if a.IsConst() {
		return Bool(a.Val == 0)
	}
	if a.Op == "not" {
		return a.Args[0]
	}
	return mk("not", 0, a)
}

func And(a, b *Expr) *Expr {
	if a.IsFalse() || b.IsFalse() {
		return False
	}
	if a.IsTrue() {
		return b
	}
	if b.IsTrue() {
		return a
	}
	return mk("and", 0, a, b)
}

func Or(a, b *Expr) *Expr {
	if a.IsTrue() || b.IsTrue() {
		return True
	}
	if a.IsFalse() {
		return b
	}
	if b.IsFalse() {
		return a
	}
	return mk("or", 0, a, b)
}

func Implies(a, b *Expr) *Expr { return Or(Not(a), b) }

func Ite(c, a, b *Expr) *Expr {
	if c.IsTrue() {
		return a
	}
	if c.IsFalse() {
		return b
	}
	if a == b {
		return a
	}
	if a.W == 0 {
		if a.IsTrue() && b.IsFalse() {
			return c
		}
		if a.IsFalse() && b.IsTrue() {
			return Not(c)
		}
	}
	if a.IsConst() && b.IsConst() && a.Val == b.Val {
		return a
	}
	return mk("ite", a.W, c, a, b)
}

func Eq(a, b *Expr) *Expr {
	if a.W != b.W {
		panic(fmt.Sprintf("smt.Eq width mismatch %d vs %d", a.W, b.W))
	}
	if a == b {
		return True
	}
	if a.IsConst() && b.IsConst() {
		return Bool(a.Val == b.Val)
	}
	if a.W == 0 {
		if b.IsTrue() {
			return a
		}
		if b.IsFalse() {
			return Not(a)
		}
		if a.IsTrue() {
			return b
		}
		if a.IsFalse() {
			return Not(b)
		}
	}
	return mk("=", 0, a, b)
}

func sx(v uint64, w int) int64 {
	if w >= 64 {
		return int64(v)
	}
	if v&(uint64(1)<<uint(w-1)) != 0 {
		return int64(v | ^mask(w))
	}
	return int64(v)
}

// Bin builds a bit-vector binary op: bvadd bvsub bvmul bvudiv bvsdiv bvurem bvsrem
// bvand bvor bvxor bvshl bvlshr bvashr. Division by a constant zero is not folded.
func Bin(op string, a, b *Expr) *Expr {
	if a.W != b.W {
		panic(fmt.Sprintf("smt.Bin %s width mismatch %d vs %d", op, a.W, b.W))
	}
	w := a.W
	if a.IsConst() && b.IsConst() {
		x, y := a.Val, b.Val
		switch op {
		case "bvadd":
			return Const(w, x+y)
		case "bvsub":
			return Const(w, x-y)
		case "bvmul":
			return Const(w, x*y)
		case "bvand":
			return Const(w, x&y)
		case "bvor":
			return Const(w, x|y)
		case "bvxor":
			return Const(w, x^y)
		case "bvudiv":
			if y != 0 {
				return Const(w, x/y)
			}
		case "bvurem":
			if y != 0 {
				return Const(w, x%y)
			}
		case "bvsdiv":
			if y != 0 {
				sxv, syv := sx(x, w), sx(y, w)
				if !(syv == -1 && sxv == sx(uint64(1)<<uint(w-1), w)) {
					return Const(w, uint64(sxv/syv))
				}
				return Const(w, x)
			}
		case "bvsrem":
			if y != 0 {
				sxv, syv := sx(x, w), sx(y, w)
				if syv == -1 {
					return Const(w, 0)
				}
				return Const(w, uint64(sxv%syv))
			}
		case "bvshl":
			if y >= uint64(w) {
				return Const(w, 0)
			}
			return Const(w, x<<y)
		case "bvlshr":
			if y >= uint64(w) {
				return Const(w, 0)
			}
			return Const(w, x>>y)
		case "bvashr":
			s := sx(x, w)
			if y >= uint64(w) {
				y = uint64(w - 1)
			}
			return Const(w, uint64(s>>y))
		}
	}
	// light identities
	switch op {
	case "bvadd", "bvor", "bvxor":
		if a.IsConst() && a.Val == 0 {
			return b
		}
		if b.IsConst() && b.Val == 0 {
			return a
		}
	case "bvsub", "bvshl", "bvlshr", "bvashr":
		if b.IsConst() && b.Val == 0 {
			return a
		}
	case "bvand":
		if (a.IsConst() && a.Val == 0) || (b.IsConst() && b.Val == 0) {
			return Const(w, 0)
		}
		if a.IsConst() && a.Val == mask(w) {
			return b
		}
		if b.IsConst() && b.Val == mask(w) {
			return a
		}
	case "bvmul":
		if a.IsConst() && a.Val == 1 {
			return b
		}
		if b.IsConst() && b.Val == 1 {
			return a
		}
	}
	return mk(op, w, a, b)
}

// Cmp builds bvult bvule bvugt bvuge bvslt bvsle bvsgt bvsge.
func Cmp(op string, a, b *Expr) *Expr {
	if a.W != b.W {
		panic(fmt.Sprintf("smt.Cmp %s width mismatch %d vs %d", op, a.W, b.W))
	}
	if a.IsConst() && b.IsConst() {
		x, y := a.Val, b.Val
		sxv, syv := sx(x, a.W), sx(y, a.W)
		switch op {
		case "bvult":
			return Bool(x < y)
		case "bvule":
			return Bool(x <= y)
		case "bvugt":
			return Bool(x > y)
		case "bvuge":
			return Bool(x >= y)
		case "bvslt":
			return Bool(sxv < syv)
		case "bvsle":
			return Bool(sxv <= syv)
		case "bvsgt":
			return Bool(sxv > syv)
		case "bvsge":
			return Bool(sxv >= syv)
		}
	}
	return mk(op, 0, a, b)
}

func BvNot(a *Expr) *Expr {
	if a.IsConst() {
		return Const(a.W, ^a.Val)
	}
	return mk("bvnot", a.W, a)
}

func BvNeg(a *Expr) *Expr {
	if a.IsConst() {
		return Const(a.W, -a.Val)
	}
	return mk("bvneg", a.W, a)
}

func Extract(hi, lo int, a *Expr) *Expr {
	w := hi - lo + 1
	if lo == 0 && w == a.W {
		return a
	}
	if a.IsConst() {
		return Const(w, a.Val>>uint(lo))
	}
	e := mk("extract", w, a)
	e.Hi, e.Lo = hi, lo
	return e
}

func ZeroExt(n int, a *Expr) *Expr {
	if n == 0 {
		return a
	}
	if a.IsConst() && a.W+n <= 64 {
		return Const(a.W+n, a.Val)
	}
	e := mk("zext", a.W+n, a)
	e.Hi = n
	return e
}

func SignExt(n int, a *Expr) *Expr {
	if n == 0 {
		return a
	}
	if a.IsConst() && a.W+n <= 64 {
		return Const(a.W+n, uint64(sx(a.Val, a.W)))
	}
	e := mk("sext", a.W+n, a)
	e.Hi = n
	return e
}

// Resize converts a to width w, sign- or zero-extending, or truncating.
func Resize(a *Expr, w int, signed bool) *Expr {
	if a.W == w {
		return a
	}
	if a.W > w {
		return Extract(w-1, 0, a)
	}
	if signed {
		return SignExt(w-a.W, a)
	}
	return ZeroExt(w-a.W, a)
}

// App applies an uninterpreted function (declared on first use by the solver session).
func App(fname string, retW int, args ...*Expr) *Expr {
	e := mk("app", retW, args...)
	e.Name = fname
	return e
}

// Select1 builds a lookup into a constant table: tbl[idx]. Emitted as a define-fun once per session.
func TableLookup(tblName string, elemW int, vals []uint64, idx *Expr) *Expr {
	if idx.IsConst() {
		if idx.Val < uint64(len(vals)) {
			return Const(elemW, vals[idx.Val])
		}
	}
	e := mk("table", elemW, idx)
	e.Name = tblName
	e.tbl = vals
	return e
}

func sortStr(w int) string {
	if w == 0 {
		return "Bool"
	}
	return fmt.Sprintf("(_ BitVec %d)", w)
}

func constStr(w int, v uint64) string {
	if w == 0 {
		if v != 0 {
			return "true"
		}
		return "false"
	}
	if w%4 == 0 {
		return fmt.Sprintf("#x%0*x", w/4, v&mask(w))
	}
	return fmt.Sprintf("#b%0*b", w, v&mask(w))
}

// String renders the term as a tree (for debugging and small terms).
func (e *Expr) String() string {
	var sb strings.Builder
	e.write(&sb, nil)
	return sb.String()
}

func (e *Expr) head() string {
	switch e.Op {
	case "extract":
		return fmt.Sprintf("(_ extract %d %d)", e.Hi, e.Lo)
	case "zext":
		return fmt.Sprintf("(_ zero_extend %d)", e.Hi)
	case "sext":
		return fmt.Sprintf("(_ sign_extend %d)", e.Hi)
	case "app", "table":
		return e.Name
	}
	return e.Op
}

func (e *Expr) write(sb *strings.Builder, named map[*Expr]string) {
	if named != nil {
		if n, ok := named[e]; ok {
			sb.WriteString(n)
			return
		}
	}
	switch e.Op {
	case "const":
		sb.WriteString(constStr(e.W, e.Val))
	case "var":
		sb.WriteString(e.Name)
	default:
		if len(e.Args) == 0 {
			sb.WriteString(e.head())
			return
		}
		sb.WriteByte('(')
		sb.WriteString(e.head())
		for _, a := range e.Args {
			sb.WriteByte(' ')
			a.write(sb, named)
		}
		sb.WriteByte(')')
	}
}
