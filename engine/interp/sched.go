package interp

// Modelled goroutines, channels and the exploring scheduler.
//
// Every modelled goroutine runs the recursive interpreter on its own host goroutine, but only
// one of them (or the scheduler) runs at any time: a goroutine that reaches a synchronisation
// operation publishes it as its pending op and hands the baton back to the scheduler, which
// decides (a decision of the path) which enabled transition fires next, applies its effect and
// resumes the goroutine(s) involved.

import (
	"fmt"
	"go/types"
	"sort"
	"strings"
)

type opKind int

const (
	opStart opKind = iota
	opSend
	opRecv
	opClose
	opSelect
	opAtomicLoad
	opAtomicStore
	opLock
	opUnlock
	opEvent  // ghost event (harness observation point)
	opWgWait // wait for counter zero
	opWgAdd
	opYield // explicit scheduling point without object
	opQuiesce // enabled only when nothing else is
	opCtxCancel
)

func (k opKind) String() string {
	return [...]string{"start", "send", "recv", "close", "select", "aload", "astore", "lock", "unlock", "event", "wgwait", "wgadd", "yield", "quiesce", "cancel"}[k]
}

// mchan is a modelled channel.
type mchan struct {
	id     int
	cap    int
	buf    []value
	closed bool
	elem   types.Type
	label  string
}

// syncObj is any other sync object (atomic cell, mutex, waitgroup, ghost)
type syncObj struct {
	id     int
	locked bool
	count  int64
	val    value
}

type selCase struct {
	ch   *mchan
	send bool
	val  value
}

type pendingOp struct {
	kind     opKind
	ch       *mchan
	val      value
	obj      *syncObj
	cases    []selCase
	hasDflt  bool
	commaOk  bool
	site     string
	delta    int64
	eventTag string
	ctx      *ctxObj
}

type resumeMsg struct {
	kill    bool
	val     value // received value
	ok      bool
	chosen  int // select: chosen case (-1 default)
	panicV  interface{}
}

type gor struct {
	id      int
	name    string
	resume  chan resumeMsg
	yielded chan struct{}
	pending *pendingOp
	done    bool
	nops    int
	panicV  interface{} // unrecovered panic value
	site    string
	isHarnessMain bool
	daemon  bool // may legitimately stay parked forever (declared by harness)
}

// SchedStep is one step of the recorded schedule (for native replay and evidence).
type SchedStep struct {
	G      int    `json:"g"`
	Op     string `json:"op"`
	Site   string `json:"site,omitempty"`
	Case   int    `json:"case,omitempty"`
	Peer   int    `json:"peer,omitempty"`
	Obj    int    `json:"obj,omitempty"`
	Tag    string `json:"tag,omitempty"`
}

type transition struct {
	g       *gor
	caseIdx int  // select case index; -1 default; 0 otherwise
	peer    *gor // rendezvous partner (receiver) or nil
	peerCase int
	objs    []int // objects modified (or whose state change matters both ways)
	robjs   []int // objects only inspected (other select cases, atomic loads)
	readOnly bool
	key     string
}

type scheduler struct {
	gs      []*gor
	baton   chan *gor
	nextObj int
	sleep   []transition
	trace   []SchedStep
	running *gor
	maxSteps int
	nsteps  int
	pruned  int
}

func newScheduler() *scheduler {
	return &scheduler{baton: make(chan *gor), nextObj: 1, maxSteps: 4000}
}

func (s *scheduler) newChan(capacity int, elem types.Type) *mchan {
	c := &mchan{id: s.nextObj, cap: capacity, elem: elem}
	s.nextObj++
	return c
}

func (s *scheduler) newObj() *syncObj {
	o := &syncObj{id: s.nextObj}
	s.nextObj++
	return o
}

type goroutineKilled struct{}

// spawn creates a modelled goroutine running body and runs it to its first sync op.
// Must be called while holding the baton (from the scheduler or from a running goroutine).
func (s *scheduler) spawn(name string, body func()) *gor {
	g := &gor{id: len(s.gs), name: name, resume: make(chan resumeMsg), yielded: make(chan struct{})}
	s.gs = append(s.gs, g)
	parent := s.running
	go func() {
		msg := <-g.resume
		defer func() {
			r := recover()
			g.done = true
			g.pending = nil
			if r != nil {
				if _, ok := r.(goroutineKilled); !ok {
					g.panicV = r
				}
			}
			g.yielded <- struct{}{}
		}()
		if msg.kill {
			panic(goroutineKilled{})
		}
		body()
	}()
	// run the child up to its first sync op
	s.running = g
	g.resume <- resumeMsg{}
	<-g.yielded
	s.running = parent
	if g.panicV != nil {
		// propagate engine-level terminations immediately
		s.checkFatal(g)
	}
	return g
}

// checkFatal re-raises path-ending panics raised inside goroutine g on the caller's stack.
func (s *scheduler) checkFatal(g *gor) {
	switch pv := g.panicV.(type) {
	case pathEnd:
		g.panicV = nil
		panic(pv)
	case abortPath:
		g.panicV = nil
		panic(pv)
	case string:
		// the interpreter itself panicked (unsupported construct): not a target panic
		g.panicV = nil
		panic(abortPath{"engine: " + pv})
	default:
		// an unrecovered panic in any goroutine crashes the process
		g.panicV = nil
		cur.panicSite = g.name
		panic(pathEnd{"panic", fmt.Sprintf("unrecovered panic in goroutine %d (%s): %s", g.id, g.name, panicString(pv))})
	}
}

// syncPoint is called by a running goroutine to publish op and wait to be scheduled.
func (s *scheduler) syncPoint(op *pendingOp) resumeMsg {
	g := s.running
	if g == nil {
		panic(abortPath{"sync operation outside a modelled goroutine (package init?)"})
	}
	g.pending = op
	g.nops++
	g.yielded <- struct{}{}
	msg := <-g.resume
	if msg.kill {
		panic(goroutineKilled{})
	}
	if msg.panicV != nil {
		panic(msg.panicV)
	}
	return msg
}

func (s *scheduler) resume(g *gor, msg resumeMsg) {
	g.pending = nil
	prev := s.running
	s.running = g
	g.resume <- msg
	<-g.yielded
	s.running = prev
	if g.panicV != nil {
		s.checkFatal(g)
	}
}

func chanRecvReady(c *mchan) bool { return len(c.buf) > 0 || c.closed }

// enabled lists the transitions that can fire in the current state.
func (s *scheduler) enabled() []transition {
	var ts []transition
	// receivers waiting per channel (for rendezvous)
	type rcv struct {
		g *gor
		c int
	}
	recvs := map[*mchan][]rcv{}
	for _, g := range s.gs {
		if g.done || g.pending == nil {
			continue
		}
		p := g.pending
		switch p.kind {
		case opRecv:
			if p.ch != nil {
				recvs[p.ch] = append(recvs[p.ch], rcv{g, 0})
			}
		case opSelect:
			for i, c := range p.cases {
				if !c.send && c.ch != nil {
					recvs[c.ch] = append(recvs[c.ch], rcv{g, i})
				}
			}
		}
	}
	addSend := func(g *gor, ci int, c *mchan, objs []int) bool {
		any := false
		if c == nil {
			return false
		}
		if c.closed {
			ts = append(ts, transition{g: g, caseIdx: ci, objs: objs})
			return true
		}
		if len(c.buf) < c.cap {
			ts = append(ts, transition{g: g, caseIdx: ci, objs: objs})
			any = true
		} else if c.cap == 0 || len(c.buf) >= c.cap {
			if len(c.buf) == 0 { // direct hand-off only when the buffer is empty
				for _, r := range recvs[c] {
					if r.g != g {
						ts = append(ts, transition{g: g, caseIdx: ci, peer: r.g, peerCase: r.c, objs: objs})
						any = true
					}
				}
			}
		}
		return any
	}
	for _, g := range s.gs {
		if g.done || g.pending == nil {
			continue
		}
		p := g.pending
		switch p.kind {
		case opStart, opYield:
			ts = append(ts, transition{g: g})
		case opSend:
			if p.ch != nil {
				addSend(g, 0, p.ch, []int{p.ch.id})
			}
		case opRecv:
			if p.ch != nil && chanRecvReady(p.ch) {
				ts = append(ts, transition{g: g, objs: []int{p.ch.id}})
			}
		case opClose:
			ts = append(ts, transition{g: g, objs: []int{p.ch.id}})
		case opSelect:
			var objs []int
			for _, c := range p.cases {
				if c.ch != nil {
					objs = append(objs, c.ch.id)
				}
			}
			others := func(i int) []int {
				var r []int
				for j, c := range p.cases {
					if j != i && c.ch != nil && c.ch != p.cases[i].ch {
						r = append(r, c.ch.id)
					}
				}
				return r
			}
			any := false
			for i, c := range p.cases {
				if c.ch == nil {
					continue
				}
				if c.send {
					n0 := len(ts)
					if addSend(g, i, c.ch, []int{c.ch.id}) {
						any = true
						for k := n0; k < len(ts); k++ {
							ts[k].robjs = others(i)
						}
					}
				} else if chanRecvReady(c.ch) {
					ts = append(ts, transition{g: g, caseIdx: i, objs: []int{c.ch.id}, robjs: others(i)})
					any = true
				}
			}
			if !any && p.hasDflt {
				// default is taken only if no case can proceed; rendezvous with a waiting
				// sender counts as "can proceed" and is listed from the sender's side.
				senderWaiting := false
				for i, c := range p.cases {
					_ = i
					if c.ch == nil || c.send {
						continue
					}
					for _, og := range s.gs {
						if og == g || og.done || og.pending == nil {
							continue
						}
						op := og.pending
						if op.kind == opSend && op.ch == c.ch && len(c.ch.buf) == 0 {
							senderWaiting = true
						}
						if op.kind == opSelect {
							for _, oc := range op.cases {
								if oc.send && oc.ch == c.ch {
									senderWaiting = true
								}
							}
						}
					}
				}
				if !senderWaiting {
					ts = append(ts, transition{g: g, caseIdx: -1, robjs: objs})
				}
			}
		case opCtxCancel:
			ts = append(ts, transition{g: g, objs: p.ctx.allDoneIDs()})
		case opAtomicLoad:
			ts = append(ts, transition{g: g, robjs: []int{p.obj.id}, readOnly: true})
		case opAtomicStore, opEvent, opUnlock, opWgAdd:
			ts = append(ts, transition{g: g, objs: []int{p.obj.id}})
		case opLock:
			if !p.obj.locked {
				ts = append(ts, transition{g: g, objs: []int{p.obj.id}})
			}
		case opWgWait:
			if p.obj.count <= 0 {
				ts = append(ts, transition{g: g, objs: []int{p.obj.id}})
			}
		}
	}
	if len(ts) == 0 {
		for _, g := range s.gs {
			if !g.done && g.pending != nil && g.pending.kind == opQuiesce {
				ts = append(ts, transition{g: g, objs: []int{g.pending.obj.id}})
				break
			}
		}
	}
	for i := range ts {
		t := &ts[i]
		peer := -1
		if t.peer != nil {
			peer = t.peer.id
		}
		t.key = fmt.Sprintf("%d.%d.%d.%d.%d", t.g.id, t.g.nops, t.caseIdx, peer, t.peerCase)
	}
	return ts
}

func independent(a, b *transition) bool {
	if a.g == b.g || (a.peer != nil && (a.peer == b.g || a.peer == b.peer)) || (b.peer != nil && b.peer == a.g) {
		return false
	}
	inter := func(xs, ys []int) bool {
		for _, x := range xs {
			for _, y := range ys {
				if x == y {
					return true
				}
			}
		}
		return false
	}
	// write/write and write/read conflicts make two transitions dependent; read/read does not
	if inter(a.objs, b.objs) || inter(a.objs, b.robjs) || inter(a.robjs, b.objs) {
		return false
	}
	return true
}

// run is the scheduler loop: executes transitions until quiescence.
func (s *scheduler) run() {
	for {
		ts := s.enabled()
		if len(ts) == 0 {
			return
		}
		s.nsteps++
		if s.nsteps > s.maxSteps {
			cur.end("unwind", fmt.Sprintf("scheduler step bound %d exceeded", s.maxSteps))
		}
		// local (invisible) transitions first, without a decision: start/yield of a goroutine
		// commute with everything.
		var pick *transition
		for i := range ts {
			if k := ts[i].g.pending.kind; k == opStart {
				pick = &ts[i]
				break
			}
		}
		if pick == nil {
			// filter sleeping transitions
			var cands []int
			for i := range ts {
				asleep := false
				for j := range s.sleep {
					if s.sleep[j].key == ts[i].key {
						asleep = true
						break
					}
				}
				if !asleep {
					cands = append(cands, i)
				}
			}
			if len(cands) == 0 {
				s.pruned++
				cur.end("sleep-blocked", "")
			}
			n := cur.chooseFrom("s", cands)
			if n < 0 || n >= len(ts) {
				cur.end("abort", "schedule replay: transition index out of range")
			}
			// siblings before n (in candidate order) go to sleep
			for _, c := range cands {
				if c == n {
					break
				}
				s.sleep = append(s.sleep, ts[c])
			}
			pick = &ts[n]
			// wake dependent sleepers
			kept := s.sleep[:0]
			for i := range s.sleep {
				if independent(&s.sleep[i], pick) {
					kept = append(kept, s.sleep[i])
				}
			}
			s.sleep = kept
		}
		s.fire(pick)
	}
}

func (s *scheduler) fire(t *transition) {
	g := t.g
	p := g.pending
	step := SchedStep{G: g.id, Op: p.kind.String(), Site: p.site, Case: t.caseIdx}
	if t.peer != nil {
		step.Peer = t.peer.id
	} else {
		step.Peer = -1
	}
	if len(t.objs) > 0 {
		step.Obj = t.objs[0]
	}
	if p.kind == opEvent {
		step.Tag = p.eventTag
	}
	s.trace = append(s.trace, step)
	doSend := func(c *mchan, v value, peer *gor, peerCase int) (panicV interface{}) {
		if c.closed {
			return targetPanic{iface{t: nil, v: "send on closed channel"}}
		}
		if peer != nil {
			pp := peer.pending
			msg := resumeMsg{val: v, ok: true, chosen: peerCase}
			_ = pp
			// sender proceeds first, then the receiver
			s.resume(g, resumeMsg{chosen: t.caseIdx})
			s.resume(peer, msg)
			return rendezvousDone{}
		}
		c.buf = append(c.buf, v)
		return nil
	}
	switch p.kind {
	case opStart, opYield:
		s.resume(g, resumeMsg{})
	case opSend:
		r := doSend(p.ch, p.val, t.peer, t.peerCase)
		if _, ok := r.(rendezvousDone); ok {
			return
		}
		s.resume(g, resumeMsg{panicV: r})
	case opRecv:
		c := p.ch
		if len(c.buf) > 0 {
			v := c.buf[0]
			c.buf = c.buf[1:]
			s.resume(g, resumeMsg{val: v, ok: true})
		} else {
			s.resume(g, resumeMsg{val: zero(c.elem), ok: false})
		}
	case opClose:
		c := p.ch
		if c.closed {
			s.resume(g, resumeMsg{panicV: targetPanic{iface{t: nil, v: "close of closed channel"}}})
			return
		}
		c.closed = true
		s.resume(g, resumeMsg{})
	case opSelect:
		if t.caseIdx < 0 {
			s.resume(g, resumeMsg{chosen: -1})
			return
		}
		sc := p.cases[t.caseIdx]
		if sc.send {
			r := doSend(sc.ch, sc.val, t.peer, t.peerCase)
			if _, ok := r.(rendezvousDone); ok {
				return
			}
			s.resume(g, resumeMsg{chosen: t.caseIdx, panicV: r})
		} else {
			c := sc.ch
			if len(c.buf) > 0 {
				v := c.buf[0]
				c.buf = c.buf[1:]
				s.resume(g, resumeMsg{chosen: t.caseIdx, val: v, ok: true})
			} else {
				s.resume(g, resumeMsg{chosen: t.caseIdx, val: zero(c.elem), ok: false})
			}
		}
	case opCtxCancel:
		p.ctx.cancelTree(ctxCanceled())
		s.resume(g, resumeMsg{})
	case opAtomicLoad:
		s.resume(g, resumeMsg{val: p.obj.val})
	case opAtomicStore:
		p.obj.val = p.val
		s.resume(g, resumeMsg{})
	case opLock:
		p.obj.locked = true
		s.resume(g, resumeMsg{})
	case opUnlock:
		p.obj.locked = false
		s.resume(g, resumeMsg{})
	case opWgAdd:
		p.obj.count += p.delta
		s.resume(g, resumeMsg{})
	case opWgWait, opEvent, opQuiesce:
		s.resume(g, resumeMsg{})
	}
}

type rendezvousDone struct{}

// killAll unwinds every parked goroutine (end of path).
func (s *scheduler) killAll() {
	for _, g := range s.gs {
		if !g.done {
			g.resume <- resumeMsg{kill: true}
			<-g.yielded
		}
	}
}

// parked describes the goroutines still blocked at quiescence.
func (s *scheduler) parked() []*gor {
	var out []*gor
	for _, g := range s.gs {
		if !g.done {
			out = append(out, g)
		}
	}
	return out
}

func (s *scheduler) describeParked() string {
	var parts []string
	for _, g := range s.parked() {
		p := g.pending
		d := "?"
		if p != nil {
			d = p.kind.String() + "@" + p.site
		}
		parts = append(parts, fmt.Sprintf("g%d(%s):%s", g.id, g.name, d))
	}
	sort.Strings(parts)
	return strings.Join(parts, " ")
}
