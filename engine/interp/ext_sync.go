package interp

// Models of context, sync and sync/atomic. Every operation that can race is a scheduling point
// (pendingOp) so that the scheduler explores its interleavings.

import (
	"fmt"
	"go/types"
	"strings"

	"golang.org/x/tools/go/ssa"
)

// ctxObj is a modelled context.Context.
type ctxObj struct {
	parent   *ctxObj
	children []*ctxObj
	done     *mchan   // nil for Background/TODO
	state    *syncObj // same id as done (for dependence with cancel)
	err      value    // iface error once cancelled
	key, val value    // WithValue
	isValue  bool
	label    string
}

var ctxTypes struct {
	init       bool
	background types.Type
	cancel     types.Type
	canceled   value
}

func ctxDynType(kind string) types.Type {
	if !ctxTypes.init {
		ctxTypes.init = true
		if p := theInterp.prog.ImportedPackage("context"); p != nil {
			if t := p.Type("backgroundCtx"); t != nil {
				ctxTypes.background = t.Type()
			}
			if t := p.Type("cancelCtx"); t != nil {
				ctxTypes.cancel = types.NewPointer(t.Type())
			}
		}
		if ctxTypes.background == nil {
			ctxTypes.background = makeNamedType("backgroundCtx", types.NewStruct(nil, nil))
		}
		if ctxTypes.cancel == nil {
			ctxTypes.cancel = types.NewPointer(makeNamedType("cancelCtx", types.NewStruct(nil, nil)))
		}
	}
	if kind == "background" {
		return ctxTypes.background
	}
	return ctxTypes.cancel
}

var ctxCanceledErr, ctxDeadlineErr value

func ctxCanceled() value {
	if p := theInterp.prog.ImportedPackage("context"); p != nil {
		if g := p.Var("Canceled"); g != nil {
			v := *theInterp.globals[g]
			if it, ok := v.(iface); ok && it.t != nil {
				return v
			}
		}
	}
	if ctxCanceledErr == nil {
		ctxCanceledErr = newEngineErr("context canceled", nil)
	}
	return ctxCanceledErr
}

func ctxOf(v value) *ctxObj {
	it, ok := v.(iface)
	if !ok || it.t == nil {
		panic(runtimeError("invalid memory address or nil pointer dereference (nil Context)"))
	}
	c, ok := it.v.(*ctxObj)
	if !ok {
		unsupported("context derived from a non-modelled Context implementation (%s)", it.t)
	}
	return c
}

func (c *ctxObj) doneChan() *mchan {
	for x := c; x != nil; x = x.parent {
		if !x.isValue {
			return x.done
		}
	}
	return nil
}

func (c *ctxObj) cancelRoot() *ctxObj {
	for x := c; x != nil; x = x.parent {
		if !x.isValue {
			return x
		}
	}
	return nil
}

func newCancelCtx(parent *ctxObj, label string) *ctxObj {
	s := needSched()
	c := &ctxObj{parent: parent, label: label}
	c.done = s.newChan(0, types.NewStruct(nil, nil))
	c.done.label = "ctx.Done:" + label
	c.state = &syncObj{id: c.done.id}
	if pr := parent.cancelRoot(); pr != nil && pr.done != nil {
		pr.children = append(pr.children, c)
		if pr.done.closed {
			c.done.closed = true
			c.err = pr.err
		}
	}
	return c
}

// cancelTree closes c's done channel and those of all descendants.
func (c *ctxObj) cancelTree(err value) {
	if c.done == nil || c.done.closed {
		return
	}
	c.done.closed = true
	c.err = err
	for _, ch := range c.children {
		ch.cancelTree(err)
	}
}

func (c *ctxObj) allDoneIDs() []int {
	var ids []int
	if c.done != nil {
		ids = append(ids, c.done.id)
	}
	for _, ch := range c.children {
		ids = append(ids, ch.allDoneIDs()...)
	}
	return ids
}

func contextMethod(name string) *nativeFn {
	switch name {
	case "Done":
		return &nativeFn{name: "context.Done", fn: func(fr *frame, args []value) value { return args[0].(*ctxObj).doneChan() }}
	case "Err":
		return &nativeFn{name: "context.Err", fn: func(fr *frame, args []value) value {
			c := args[0].(*ctxObj).cancelRoot()
			if c == nil || c.done == nil {
				return iface{}
			}
			if cur.sched != nil && cur.sched.running != nil {
				cur.sched.syncPoint(&pendingOp{kind: opAtomicLoad, obj: c.state, site: "ctx.Err"})
			}
			if c.done.closed {
				return c.err
			}
			return iface{}
		}}
	case "Value":
		return &nativeFn{name: "context.Value", fn: func(fr *frame, args []value) value {
			for x := args[0].(*ctxObj); x != nil; x = x.parent {
				if x.isValue && truth(equalsV(nil, iface{}, iface{})) {
					ki, ok1 := x.key.(iface)
					ai, ok2 := args[1].(iface)
					if ok1 && ok2 && sameType(ki.t, ai.t) && ki.t != nil && truth(equalsV(ki.t, ki.v, ai.v)) {
						return x.val
					}
				}
			}
			return iface{}
		}}
	case "Deadline":
		return &nativeFn{name: "context.Deadline", fn: func(fr *frame, args []value) value {
			return tuple{zero(fr.fn.Signature.Results().At(0).Type()), false}
		}}
	}
	return nil
}

// syncObjs maps the address of a sync primitive in interpreter memory to its model object.
var syncObjs = map[*value]*syncObj{}

func syncObjFor(p value) *syncObj {
	pv, ok := p.(*value)
	if !ok || pv == nil {
		panic(runtimeError("invalid memory address or nil pointer dereference (nil sync object)"))
	}
	if o, ok := syncObjs[pv]; ok {
		return o
	}
	var o *syncObj
	if cur != nil && cur.sched != nil {
		o = cur.sched.newObj()
	} else {
		o = &syncObj{id: -1}
	}
	syncObjs[pv] = o
	return o
}

func resetSyncState() {
	syncObjs = map[*value]*syncObj{}
	resetPtrIDs()
}

func syncOp(kind opKind, o *syncObj, v value, site string) resumeMsg {
	if cur == nil || cur.sched == nil || cur.sched.running == nil {
		// outside scheduling (package init): apply directly
		switch kind {
		case opAtomicStore:
			o.val = v
		case opLock:
			o.locked = true
		case opUnlock:
			o.locked = false
		}
		return resumeMsg{val: o.val}
	}
	return cur.sched.syncPoint(&pendingOp{kind: kind, obj: o, val: v, site: site})
}

func resultZero(fr *frame) value {
	res := fr.fn.Signature.Results()
	if res.Len() == 0 {
		return nil
	}
	return zero(res.At(0).Type())
}

func init() {
	externals["context.Background"] = func(fr *frame, args []value) value {
		return iface{t: ctxDynType("background"), v: &ctxObj{label: "background"}}
	}
	externals["context.TODO"] = externals["context.Background"]
	withCancel := func(fr *frame, args []value) value {
		parent := ctxOf(args[0])
		c := newCancelCtx(parent, fr.callerSite())
		cancel := &nativeFn{name: "context.cancel", fn: func(fr2 *frame, a []value) value {
			s := needSched()
			s.syncPoint(&pendingOp{kind: opCtxCancel, ctx: c, site: "cancel:" + c.label})
			return nil
		}}
		return tuple{iface{t: ctxDynType("cancel"), v: c}, cancel}
	}
	externals["context.WithCancel"] = withCancel
	// deadlines never fire in the model (dials creates none); stated as an assumption
	externals["context.WithTimeout"] = func(fr *frame, args []value) value { return withCancel(fr, args[:1]) }
	externals["context.WithDeadline"] = func(fr *frame, args []value) value { return withCancel(fr, args[:1]) }
	externals["context.WithValue"] = func(fr *frame, args []value) value {
		parent := ctxOf(args[0])
		c := &ctxObj{parent: parent, isValue: true, key: args[1], val: args[2], label: "value"}
		return iface{t: ctxDynType("cancel"), v: c}
	}
	externals["context.Cause"] = func(fr *frame, args []value) value {
		return contextMethod("Err").fn(fr, []value{ctxOf(args[0])})
	}

	// sync.Mutex / RWMutex
	lock := func(fr *frame, args []value) value {
		syncOp(opLock, syncObjFor(args[0]), nil, "Lock")
		return nil
	}
	unlock := func(fr *frame, args []value) value {
		o := syncObjFor(args[0])
		if !o.locked {
			panic(targetPanic{iface{t: nil, v: "sync: unlock of unlocked mutex"}})
		}
		syncOp(opUnlock, o, nil, "Unlock")
		return nil
	}
	externals["(*sync.Mutex).Lock"] = lock
	externals["(*sync.Mutex).Unlock"] = unlock
	externals["(*sync.Mutex).TryLock"] = func(fr *frame, args []value) value {
		o := syncObjFor(args[0])
		syncOp(opAtomicLoad, o, nil, "TryLock")
		if o.locked {
			return false
		}
		o.locked = true
		return true
	}
	externals["(*sync.RWMutex).Lock"] = lock
	externals["(*sync.RWMutex).Unlock"] = unlock
	externals["(*sync.RWMutex).RLock"] = lock
	externals["(*sync.RWMutex).RUnlock"] = unlock
	externals["(*sync.Once).Do"] = func(fr *frame, args []value) value {
		o := syncObjFor(args[0])
		syncOp(opLock, o, nil, "Once.Do")
		if o.count == 0 {
			o.count = 1
			defer func() {
				o.locked = false
			}()
			call(theInterp, fr, 0, args[1], nil)
			return nil
		}
		o.locked = false
		return nil
	}
	externals["(*sync.WaitGroup).Add"] = func(fr *frame, args []value) value {
		o := syncObjFor(args[0])
		if cur != nil && cur.sched != nil && cur.sched.running != nil {
			cur.sched.syncPoint(&pendingOp{kind: opWgAdd, obj: o, delta: asInt64(args[1]), site: "wg.Add"})
		} else {
			o.count += asInt64(args[1])
		}
		if o.count < 0 {
			panic(targetPanic{iface{t: nil, v: "sync: negative WaitGroup counter"}})
		}
		return nil
	}
	externals["(*sync.WaitGroup).Done"] = func(fr *frame, args []value) value {
		return externals["(*sync.WaitGroup).Add"](fr, []value{args[0], -1})
	}
	externals["(*sync.WaitGroup).Wait"] = func(fr *frame, args []value) value {
		syncOp(opWgWait, syncObjFor(args[0]), nil, "wg.Wait")
		return nil
	}

	// sync.Map: an association list of interface-typed keys (symbolic keys compare through the
	// solver); every method is one atomic step.
	anyT := types.NewInterfaceType(nil, nil)
	smapOf := func(o *syncObj) *smap {
		if m, ok := o.val.(*smap); ok && m != nil {
			return m
		}
		m := makeMap(anyT, 0).(*smap)
		o.val = m
		return m
	}
	nilIface := iface{}
	externals["(*sync.Map).Load"] = func(fr *frame, args []value) value {
		o := syncObjFor(args[0])
		m := smapOf(o)
		syncOp(opAtomicLoad, o, nil, "sync.Map.Load")
		if v, ok := m.lookup(args[1]); ok {
			return tuple{v, true}
		}
		return tuple{nilIface, false}
	}
	externals["(*sync.Map).Store"] = func(fr *frame, args []value) value {
		o := syncObjFor(args[0])
		m := smapOf(o)
		syncOp(opAtomicStore, o, m, "sync.Map.Store")
		theInterp.logMap(m)
		m.insert(args[1], args[2])
		return nil
	}
	externals["(*sync.Map).LoadOrStore"] = func(fr *frame, args []value) value {
		o := syncObjFor(args[0])
		m := smapOf(o)
		syncOp(opAtomicStore, o, m, "sync.Map.LoadOrStore")
		if v, ok := m.lookup(args[1]); ok {
			return tuple{v, true}
		}
		theInterp.logMap(m)
		m.insert(args[1], args[2])
		return tuple{args[2], false}
	}
	externals["(*sync.Map).LoadAndDelete"] = func(fr *frame, args []value) value {
		o := syncObjFor(args[0])
		m := smapOf(o)
		syncOp(opAtomicStore, o, m, "sync.Map.LoadAndDelete")
		if v, ok := m.lookup(args[1]); ok {
			theInterp.logMap(m)
			m.delete(args[1])
			return tuple{v, true}
		}
		return tuple{nilIface, false}
	}
	externals["(*sync.Map).Delete"] = func(fr *frame, args []value) value {
		o := syncObjFor(args[0])
		m := smapOf(o)
		syncOp(opAtomicStore, o, m, "sync.Map.Delete")
		theInterp.logMap(m)
		m.delete(args[1])
		return nil
	}
	externals["(*sync.Map).Swap"] = func(fr *frame, args []value) value {
		o := syncObjFor(args[0])
		m := smapOf(o)
		syncOp(opAtomicStore, o, m, "sync.Map.Swap")
		prev, ok := m.lookup(args[1])
		theInterp.logMap(m)
		m.insert(args[1], args[2])
		if ok {
			return tuple{prev, true}
		}
		return tuple{nilIface, false}
	}
	externals["(*sync.Map).Range"] = func(fr *frame, args []value) value {
		o := syncObjFor(args[0])
		m := smapOf(o)
		syncOp(opAtomicLoad, o, nil, "sync.Map.Range")
		keys := append([]value(nil), m.keys...)
		vals := append([]value(nil), m.vals...)
		for i := range keys {
			if r := call(theInterp, fr, 0, args[1], []value{keys[i], vals[i]}); r != nil {
				if b, ok := r.(bool); ok && !b {
					break
				}
			}
		}
		return nil
	}

	// sync.Pool: a LIFO of the values put back (one of the behaviours the real pool may show: it
	// may also drop values at any time, which is not modelled); Get and Put are one atomic step.
	externals["(*sync.Pool).Get"] = func(fr *frame, args []value) value {
		o := syncObjFor(args[0])
		syncOp(opAtomicStore, o, o.val, "sync.Pool.Get")
		if st, ok := o.val.([]value); ok && len(st) > 0 {
			v := st[len(st)-1]
			o.val = st[:len(st)-1]
			return v
		}
		if p, ok := args[0].(*value); ok && p != nil {
			if fields, ok := (*p).(structure); ok && len(fields) > 0 {
				newf := fields[len(fields)-1]
				if f, isFn := newf.(*ssa.Function); !(isFn && f == nil) && newf != nil {
					return call(theInterp, fr, 0, newf, nil)
				}
			}
		}
		return nilIface
	}
	externals["(*sync.Pool).Put"] = func(fr *frame, args []value) value {
		o := syncObjFor(args[0])
		syncOp(opAtomicStore, o, o.val, "sync.Pool.Put")
		st, _ := o.val.([]value)
		o.val = append(append([]value(nil), st...), args[1])
		return nil
	}

	// sync/atomic typed values (generic Pointer[T] and the fixed-size types)
	atomicLoad := func(fr *frame, args []value) value {
		o := syncObjFor(args[0])
		msg := syncOp(opAtomicLoad, o, nil, "atomic.Load")
		if msg.val == nil {
			return resultZero(fr)
		}
		return msg.val
	}
	atomicStore := func(fr *frame, args []value) value {
		syncOp(opAtomicStore, syncObjFor(args[0]), args[1], "atomic.Store")
		return nil
	}
	atomicSwap := func(fr *frame, args []value) value {
		o := syncObjFor(args[0])
		syncOp(opAtomicStore, o, nil, "atomic.Swap") // scheduling point; effect applied below atomically
		old := o.val
		if old == nil {
			old = resultZero(fr)
		}
		o.val = args[1]
		return old
	}
	atomicCAS := func(fr *frame, args []value) value {
		o := syncObjFor(args[0])
		old := o.val
		syncOp(opAtomicStore, o, old, "atomic.CAS")
		curv := o.val
		if curv == nil {
			curv = zeroLike(args[1])
		}
		if truth(equalsV(nil, curv, args[1])) {
			o.val = args[2]
			return true
		}
		return false
	}
	atomicAdd := func(fr *frame, args []value) value {
		o := syncObjFor(args[0])
		syncOp(opAtomicStore, o, o.val, "atomic.Add")
		curv := o.val
		if curv == nil {
			curv = zeroLike(args[1])
		}
		nv := binop(tokenADD, nil, curv, args[1])
		o.val = nv
		return nv
	}
	for _, tn := range []string{"Int32", "Int64", "Uint32", "Uint64", "Uintptr", "Bool", "Value"} {
		p := "(*sync/atomic." + tn + ")."
		externals[p+"Load"] = atomicLoad
		externals[p+"Store"] = atomicStore
		externals[p+"Swap"] = atomicSwap
		externals[p+"CompareAndSwap"] = atomicCAS
		externals[p+"Add"] = atomicAdd
	}
	for _, m := range []struct {
		s string
		f externalFn
	}{{"Load", atomicLoad}, {"Store", atomicStore}, {"Swap", atomicSwap}, {"CompareAndSwap", atomicCAS}} {
		prefixExternals = append(prefixExternals, struct {
			prefix, suffix string
			fn             externalFn
		}{"(*sync/atomic.Pointer[", "])." + m.s, m.f})
	}
	externals["sync.NewCond"] = func(fr *frame, args []value) value { return resultZero(fr) }
	// time: only what error paths and sources touch; no timers are modelled
	externals["time.Now"] = func(fr *frame, args []value) value { return resultZero(fr) }
	externals["time.Sleep"] = func(fr *frame, args []value) value {
		if cur != nil && cur.sched != nil && cur.sched.running != nil {
			cur.sched.syncPoint(&pendingOp{kind: opEvent, obj: ghostObj(), eventTag: "sleep", site: "time.Sleep"})
		}
		return nil
	}
}

func zeroLike(v value) value {
	if k, ok := scalarKind(v); ok {
		return concOf(k, 0)
	}
	switch v.(type) {
	case *value:
		return (*value)(nil)
	}
	return v
}

func (fr *frame) callerSite() string {
	if fr == nil || fr.caller == nil {
		return "?"
	}
	return fr.caller.fn.Name()
}

var _ = fmt.Sprint
var _ = strings.Contains
var _ *ssa.Function
