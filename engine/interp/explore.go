package interp

// Path state: decisions, path condition, assertions, inputs.

import (
	"fmt"
	"os"
	"runtime/debug"
	"sort"
	"strings"

	"symgo/smt"
)

// Decision is one node on a path of the decision tree.
type Decision struct {
	K string `json:"k"`           // "b" branch, "c" choose, "v" value, "s" schedule
	N int    `json:"n"`           // chosen alternative
	V uint64 `json:"v,omitempty"` // for "v": the candidate value
}

// Input is one nondeterministic input created by the harness.
type Input struct {
	Name string
	Kind string // "int64","uint64","int","byte","bool","bytes","choose",...
	E    []*smt.Expr
	Conc []uint64 // for choose: the concrete choice
}

// Violation is an assertion failure (candidate) with a model.
type Violation struct {
	Msg      string            `json:"msg"`
	Class    string            `json:"class,omitempty"` // known-finding class id, "" if none
	Kind     string            `json:"kind"`            // "assert","panic","deadlock","leak","unwind"
	Inputs   map[string][]uint64 `json:"inputs"`
	Decisions []Decision        `json:"decisions"`
	Schedule []SchedStep        `json:"schedule,omitempty"`
	Site     string            `json:"site,omitempty"`
	Observed map[string]string `json:"observed,omitempty"`
}

// PathResult is what one execution reports.
type PathResult struct {
	Decisions  []Decision   `json:"decisions"`
	Alts       [][]Decision `json:"alts"`
	Outcome    string       `json:"outcome"` // "ok","panic","infeasible","abort","assume-false","sleep-blocked","unwind"
	Detail     string       `json:"detail,omitempty"`
	Violations []Violation  `json:"violations,omitempty"`
	Reached    []string     `json:"reached,omitempty"`
	Steps      int64        `json:"steps"`
	Forks      int          `json:"forks"`
	Pruned     int          `json:"pruned"`
	Unknowns   int          `json:"unknowns"`
	SchedSteps int          `json:"sched_steps"`
	Sample     string       `json:"sample,omitempty"`
	Model      map[string][]uint64 `json:"model,omitempty"`
	Funcs      map[string]int `json:"-"`
}

type pathEnd struct {
	outcome string
	detail  string
}

type pathState struct {
	solver   *smt.Solver
	prefix   []Decision
	pos      int
	taken    []Decision
	alts     [][]Decision
	inputs   []*Input
	inputCnt map[string]int
	res      *PathResult
	steps    int64
	maxSteps int64
	reached  map[string]bool
	observed map[string]string
	sched    *scheduler
	pcLen    int
	loopCap  int
	funcs    map[string]int
	noAlts   bool
	env      map[string]value
	panicSite string
}

// cur is the path being executed (one at a time per process).
var cur *pathState

func newPathState(s *smt.Solver, prefix []Decision) *pathState {
	return &pathState{solver: s, prefix: prefix, inputCnt: map[string]int{}, res: &PathResult{},
		reached: map[string]bool{}, observed: map[string]string{}, maxSteps: 50_000_000, funcs: map[string]int{}}
}

func (p *pathState) end(outcome, detail string) {
	panic(pathEnd{outcome, detail})
}

func (p *pathState) assertPC(c *smt.Expr) {
	p.solver.Assert(c)
	p.pcLen++
}

// feasible reports whether pc ∧ c is satisfiable. Unknown counts as feasible (and is recorded).
func (p *pathState) feasible(c *smt.Expr) bool {
	if c.IsTrue() {
		return true
	}
	if c.IsFalse() {
		return false
	}
	r := p.solver.CheckWith(c)
	switch r {
	case smt.Unsat:
		return false
	case smt.Sat:
		return true
	default:
		p.res.Unknowns++
		return true
	}
}

func (p *pathState) record(d Decision) {
	p.taken = append(p.taken, d)
}

func (p *pathState) addAlt(d Decision) {
	if p.noAlts {
		return
	}
	alt := make([]Decision, len(p.taken)+1)
	copy(alt, p.taken)
	alt[len(p.taken)] = d
	p.alts = append(p.alts, alt)
}

// branch decides a symbolic condition; returns the side taken on this path.
func (p *pathState) branch(c *smt.Expr) bool {
	if c.IsTrue() {
		return true
	}
	if c.IsFalse() {
		return false
	}
	if p.pos < len(p.prefix) {
		d := p.prefix[p.pos]
		p.pos++
		if d.K != "b" {
			p.end("abort", fmt.Sprintf("decision replay mismatch: want b got %s at %d", d.K, p.pos-1))
		}
		p.record(d)
		if d.N == 1 {
			p.assertPC(c)
			return true
		}
		p.assertPC(smt.Not(c))
		return false
	}
	ft := p.feasible(c)
	var ff bool
	if !ft {
		ff = true
	} else {
		ff = p.feasible(smt.Not(c))
	}
	switch {
	case ft && ff:
		p.res.Forks++
		p.addAlt(Decision{K: "b", N: 0})
		p.record(Decision{K: "b", N: 1})
		p.assertPC(c)
		return true
	case ft:
		p.res.Pruned++
		// c is implied: recorded (so that replays stay aligned) but has no alternative
		p.record(Decision{K: "b", N: 1})
		return true
	default:
		p.res.Pruned++
		p.record(Decision{K: "b", N: 0})
		return false
	}
}

// truth converts a bool-or-sym value to a concrete bool by branching.
func truth(v value) bool {
	switch v := v.(type) {
	case bool:
		return v
	case sym:
		return cur.branch(v.e)
	}
	panic(fmt.Sprintf("truth: %T", v))
}

// choose makes an unconstrained n-way choice.
func (p *pathState) choose(n int, kind string) int {
	if n <= 0 {
		p.end("abort", "choose from empty set")
	}
	if p.pos < len(p.prefix) {
		d := p.prefix[p.pos]
		p.pos++
		if d.K != kind {
			p.end("abort", fmt.Sprintf("decision replay mismatch: want %s got %s at %d", kind, d.K, p.pos-1))
		}
		p.record(d)
		return d.N
	}
	if n > 1 {
		p.res.Forks++
	}
	for i := n - 1; i >= 1; i-- {
		p.addAlt(Decision{K: kind, N: i})
	}
	p.record(Decision{K: kind, N: 0})
	return 0
}

// chooseFrom picks one of the listed alternative indices (used by the scheduler: the listed
// indices are the enabled, non-sleeping transitions).
func (p *pathState) chooseFrom(kind string, cands []int) int {
	if p.pos < len(p.prefix) {
		d := p.prefix[p.pos]
		if d.K == kind {
			p.pos++
			p.record(d)
			return d.N
		}
		p.end("abort", fmt.Sprintf("decision replay mismatch: want %s got %s at %d", kind, d.K, p.pos))
	}
	if len(cands) > 1 {
		p.res.Forks++
	}
	for i := len(cands) - 1; i >= 1; i-- {
		p.addAlt(Decision{K: kind, N: cands[i]})
	}
	p.record(Decision{K: kind, N: cands[0]})
	return cands[0]
}

// concretize enumerates the feasible values of e.
func (p *pathState) concretize(e *smt.Expr) uint64 {
	if e.IsConst() {
		return e.Val
	}
	for {
		if p.pos < len(p.prefix) {
			d := p.prefix[p.pos]
			p.pos++
			if d.K != "v" {
				p.end("abort", fmt.Sprintf("decision replay mismatch: want v got %s at %d", d.K, p.pos-1))
			}
			p.record(d)
			c := smt.Eq(e, smt.Const(e.W, d.V))
			if d.N == 1 {
				p.assertPC(c)
				return d.V
			}
			p.assertPC(smt.Not(c))
			continue
		}
		// need a model value
		if os.Getenv("SYMGO_DEBUG_CONC") != "" {
			fmt.Fprintf(os.Stderr, "CONCRETIZE %s\n%s\n", e.String(), debug.Stack())
		}
		r := p.solver.Check()
		if r != smt.Sat {
			p.end("abort", "concretize: path condition not sat: "+r.String())
		}
		vals, err := p.solver.Values([]*smt.Expr{e})
		if err != nil {
			p.end("abort", "concretize: "+err.Error())
		}
		v := vals[0]
		c := smt.Eq(e, smt.Const(e.W, v))
		if p.feasible(smt.Not(c)) {
			p.res.Forks++
			p.addAlt(Decision{K: "v", N: 0, V: v})
		} else {
			p.res.Pruned++
		}
		p.record(Decision{K: "v", N: 1, V: v})
		p.assertPC(c)
		return v
	}
}

// concInt returns a concrete int64 for an integer value, concretising symbolic ones.
func concInt(v value) int64 {
	if s, ok := v.(sym); ok {
		return concSigned(cur.concretize(s.e), s.k)
	}
	return asInt64(v)
}

func (p *pathState) assume(v value) {
	switch v := v.(type) {
	case bool:
		if !v {
			p.end("assume-false", "")
		}
	case sym:
		if p.pos < len(p.prefix) || true {
			// assumptions are not decisions; check feasibility only beyond the prefix
			if p.pos >= len(p.prefix) && !p.feasible(v.e) {
				p.end("assume-false", "")
			}
			p.assertPC(v.e)
		}
	}
}

func (p *pathState) newInput(name, kind string) *Input {
	k := p.inputCnt[name]
	p.inputCnt[name] = k + 1
	in := &Input{Name: name, Kind: kind}
	p.inputs = append(p.inputs, in)
	return in
}

func sanitize(s string) string {
	var sb strings.Builder
	for _, c := range s {
		if (c >= 'a' && c <= 'z') || (c >= 'A' && c <= 'Z') || (c >= '0' && c <= '9') || c == '_' {
			sb.WriteRune(c)
		} else {
			sb.WriteByte('_')
		}
	}
	return sb.String()
}

func (p *pathState) freshVar(name string, w int) *smt.Expr {
	return smt.Var(fmt.Sprintf("in_%s_%d", sanitize(name), len(p.inputs)), w)
}

// model extracts concrete values for all inputs under pc ∧ extra.
func (p *pathState) model(extra *smt.Expr) (map[string][]uint64, bool) {
	if extra != nil {
		p.solver.Define(extra)
	}
	for _, in := range p.inputs {
		for _, e := range in.E {
			p.solver.Define(e)
		}
	}
	p.solver.Push()
	defer p.solver.Pop()
	if extra != nil {
		p.solver.Assert(extra)
	}
	r := p.solver.Check()
	if r != smt.Sat {
		return nil, false
	}
	out := map[string][]uint64{}
	for _, in := range p.inputs {
		if len(in.E) > 0 {
			vals, err := p.solver.Values(in.E)
			if err != nil {
				return nil, false
			}
			out[in.Name] = append(out[in.Name], vals...)
		} else {
			out[in.Name] = append(out[in.Name], in.Conc...)
		}
	}
	return out, true
}

func (p *pathState) addViolation(kind, msg, class string, model map[string][]uint64) {
	v := Violation{Msg: msg, Kind: kind, Class: class, Inputs: model}
	v.Decisions = append([]Decision(nil), p.taken...)
	if p.sched != nil {
		v.Schedule = append([]SchedStep(nil), p.sched.trace...)
	}
	v.Observed = map[string]string{}
	for k, s := range p.observed {
		v.Observed[k] = s
	}
	p.res.Violations = append(p.res.Violations, v)
}

// assertCond checks a harness assertion. class/known: optional known-finding class predicate.
func (p *pathState) assertCond(c value, msg string, class string, classPred value) {
	var ce *smt.Expr
	switch c := c.(type) {
	case bool:
		ce = smt.Bool(c)
	case sym:
		ce = c.e
	}
	if ce.IsTrue() {
		return
	}
	neg := smt.Not(ce)
	if class == "" {
		if m, ok := p.model(neg); ok {
			p.addViolation("assert", msg, "", m)
		} else if !ce.IsFalse() {
			// unsat or unknown: distinguish
		}
	} else {
		var pe *smt.Expr
		switch cp := classPred.(type) {
		case bool:
			pe = smt.Bool(cp)
		case sym:
			pe = cp.e
		}
		if m, ok := p.model(smt.And(neg, smt.Not(pe))); ok {
			p.addViolation("assert", msg, "", m)
		}
		if m, ok := p.model(smt.And(neg, pe)); ok {
			p.addViolation("assert", msg, class, m)
		}
	}
	if ce.IsFalse() {
		p.end("assert-failed", msg)
	}
	// continue in the world where the assertion holds
	if p.feasible(ce) {
		p.assertPC(ce)
	} else {
		p.end("assert-failed", msg)
	}
}

func (p *pathState) sampleString() string {
	m, ok := p.model(nil)
	if !ok {
		return ""
	}
	p.res.Model = m
	keys := make([]string, 0, len(m))
	for k := range m {
		keys = append(keys, k)
	}
	sort.Strings(keys)
	var sb strings.Builder
	for i, k := range keys {
		if i > 0 {
			sb.WriteString(" ")
		}
		fmt.Fprintf(&sb, "%s=%v", k, m[k])
		if sb.Len() > 300 {
			sb.WriteString(" …")
			break
		}
	}
	return sb.String()
}
