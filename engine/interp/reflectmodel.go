package interp

// Executable model of package reflect over go/types and the interpreter's heap.
//
// reflect.Type  = iface{rtypeType, rtype{t}}            (t is a go/types type; identity = types.Identical)
// reflect.Value = structure{rtype{t} | nil, payload, flags}
//   flagAddr: payload is a *value cell that holds the value (the Value is addressable and aliases it)
//   flagRO:   obtained through an unexported field (cannot be Set or Interface()d)
// Values that are not addressable carry the value itself as payload.

import (
	"fmt"
	"go/ast"
	"go/token"
	"go/types"
	"reflect"
	"strings"
	"unsafe"

	"golang.org/x/tools/go/ssa"
)

type opaqueType struct {
	types.Type
	name string
}

func (t *opaqueType) String() string { return t.name }

var reflectTypesPackage = types.NewPackage("reflect", "reflect")

// rtype is the concrete type the interpreter uses to implement reflect.Type.
var rtypeType = makeNamedType("rtype", &opaqueType{nil, "rtype"})

// errorType: engine-created errors.
var errorType = makeNamedType("error", &opaqueType{nil, "error"})

func makeNamedType(name string, underlying types.Type) *types.Named {
	obj := types.NewTypeName(token.NoPos, reflectTypesPackage, name, nil)
	return types.NewNamed(obj, underlying, nil)
}

func makeReflectType(rt rtype) value {
	if rt.t == nil {
		return iface{}
	}
	return iface{rtypeType, rt}
}

const (
	flagAddr uintptr = 1
	flagRO   uintptr = 2
)

type rv struct {
	t     types.Type
	p     value
	flags uintptr
}

func (r rv) valid() bool { return r.t != nil }

func (r rv) enc() value {
	if r.t == nil {
		return structure{(*value)(nil), unsafe.Pointer(nil), uintptr(0)}
	}
	return structure{rtype{r.t}, r.p, r.flags}
}

func decodeRV(v value) rv {
	st := v.(structure)
	rt, ok := st[0].(rtype)
	if !ok {
		return rv{}
	}
	fl, _ := st[2].(uintptr)
	return rv{t: rt.t, p: st[1], flags: fl}
}

// get returns the current value (not copied).
func (r rv) get() value {
	if r.flags&flagAddr != 0 {
		return *(r.p.(*value))
	}
	return r.p
}

// copyOut returns an independent copy of the current value.
func (r rv) copyOut() value {
	if r.flags&flagAddr != 0 {
		return load(r.t, r.p.(*value))
	}
	return copyVal(r.t, r.p)
}

func copyVal(t types.Type, v value) value {
	var cell value = v
	return load(t, &cell)
}

func reflectPanic(format string, args ...interface{}) {
	panic(targetPanic{iface{t: nil, v: "reflect: " + fmt.Sprintf(format, args...)}})
}

func reflectKind(t types.Type) reflect.Kind {
	switch t := t.(type) {
	case *types.Named, *types.Alias:
		return reflectKind(t.Underlying())
	case *types.Basic:
		switch t.Kind() {
		case types.Bool:
			return reflect.Bool
		case types.Int:
			return reflect.Int
		case types.Int8:
			return reflect.Int8
		case types.Int16:
			return reflect.Int16
		case types.Int32:
			return reflect.Int32
		case types.Int64:
			return reflect.Int64
		case types.Uint:
			return reflect.Uint
		case types.Uint8:
			return reflect.Uint8
		case types.Uint16:
			return reflect.Uint16
		case types.Uint32:
			return reflect.Uint32
		case types.Uint64:
			return reflect.Uint64
		case types.Uintptr:
			return reflect.Uintptr
		case types.Float32:
			return reflect.Float32
		case types.Float64:
			return reflect.Float64
		case types.Complex64:
			return reflect.Complex64
		case types.Complex128:
			return reflect.Complex128
		case types.String:
			return reflect.String
		case types.UnsafePointer:
			return reflect.UnsafePointer
		}
	case *types.Array:
		return reflect.Array
	case *types.Chan:
		return reflect.Chan
	case *types.Signature:
		return reflect.Func
	case *types.Interface:
		return reflect.Interface
	case *types.Map:
		return reflect.Map
	case *types.Pointer:
		return reflect.Ptr
	case *types.Slice:
		return reflect.Slice
	case *types.Struct:
		return reflect.Struct
	case *types.TypeParam:
		return reflectKind(t.Underlying())
	}
	if t == rtypeType {
		return reflect.Ptr
	}
	panic(fmt.Sprint("unexpected type: ", t))
}

func kindVal(t types.Type) value { return uint(reflectKind(t)) }

func typeArg(v value) types.Type {
	it := v.(iface)
	if it.t == nil {
		reflectPanic("nil Type")
	}
	return it.v.(rtype).t
}

func isReflectValueType(t types.Type) bool {
	if n, ok := t.(*types.Named); ok {
		o := n.Obj()
		return o.Pkg() != nil && o.Pkg().Path() == "reflect" && o.Name() == "Value"
	}
	return false
}

func compareRV(x, y value) value {
	a, b := decodeRV(x), decodeRV(y)
	if !a.valid() || !b.valid() {
		return a.valid() == b.valid()
	}
	if !types.Identical(a.t, b.t) || a.flags != b.flags {
		return false
	}
	pa, oka := a.p.(*value)
	pb, okb := b.p.(*value)
	if oka && okb {
		return pa == pb
	}
	return false
}

// ---------------------------------------------------------------------------------------------
// pointer identities (reflect.Value.Pointer)

var ptrIDs = map[interface{}]uintptr{}
var nextPtrID uintptr = 0xc000100000

func ptrID(k interface{}) uintptr {
	if id, ok := ptrIDs[k]; ok {
		return id
	}
	nextPtrID += 0x100
	ptrIDs[k] = nextPtrID
	return nextPtrID
}

func resetPtrIDs() {
	ptrIDs = map[interface{}]uintptr{}
	nextPtrID = 0xc000100000
}

// ---------------------------------------------------------------------------------------------
// StructField helpers

func exported(name string) bool { return ast.IsExported(name) }

// structFieldValue builds a reflect.StructField structure:
// {Name, PkgPath, Type, Tag, Offset, Index, Anonymous}
func structFieldValue(st *types.Struct, i int, index []int) value {
	f := st.Field(i)
	pkgPath := ""
	if !f.Exported() && f.Pkg() != nil {
		pkgPath = f.Pkg().Path()
	}
	var idx []value
	for _, k := range index {
		idx = append(idx, k)
	}
	var off uintptr
	func() {
		defer func() { recover() }()
		var vars []*types.Var
		for k := 0; k < st.NumFields(); k++ {
			vars = append(vars, st.Field(k))
		}
		off = uintptr(theInterp.sizes.Offsetsof(vars)[i])
	}()
	return structure{f.Name(), pkgPath, makeReflectType(rtype{f.Type()}), st.Tag(i), off, idx, f.Embedded()}
}

func structOf(fieldsV value) types.Type {
	fs := fieldsV.([]value)
	var vars []*types.Var
	var tags []string
	seen := map[string]bool{}
	for i, fv := range fs {
		f := fv.(structure)
		name := f[0].(string)
		pkgPath, _ := f[1].(string)
		tIface := f[2].(iface)
		if name == "" {
			reflectPanic("reflect.StructOf: field %d has no name", i)
		}
		if !token.IsIdentifier(name) {
			reflectPanic("reflect.StructOf: field %d has invalid name", i)
		}
		if tIface.t == nil {
			reflectPanic("reflect.StructOf: field %d has no type", i)
		}
		ft := tIface.v.(rtype).t
		if !exported(name) && pkgPath == "" {
			reflectPanic("reflect.StructOf: field %q is unexported but missing PkgPath", name)
		}
		if seen[name] && name != "_" {
			reflectPanic("reflect.StructOf: duplicate field %s", name)
		}
		seen[name] = true
		tag, _ := f[3].(string)
		anon, _ := f[6].(bool)
		var pkg *types.Package
		if !exported(name) {
			pkg = pkgByPath(pkgPath)
		}
		vars = append(vars, types.NewField(token.NoPos, pkg, name, ft, anon))
		tags = append(tags, tag)
	}
	return types.NewStruct(vars, tags)
}

func pkgByPath(path string) *types.Package {
	for _, p := range theInterp.prog.AllPackages() {
		if p.Pkg.Path() == path {
			return p.Pkg
		}
	}
	return types.NewPackage(path, path)
}

// ---------------------------------------------------------------------------------------------
// reflect.Type methods

func rtypeMethod(name string) *nativeFn {
	f := rtypeMethods[name]
	if f == nil {
		return &nativeFn{name: "reflect.Type." + name, fn: func(fr *frame, args []value) value {
			panic(abortPath{"reflect model: Type." + name + " not implemented"})
		}}
	}
	return &nativeFn{name: "reflect.Type." + name, fn: f}
}

var rtypeMethods map[string]func(fr *frame, args []value) value

func underStruct(t types.Type, meth string) *types.Struct {
	st, ok := t.Underlying().(*types.Struct)
	if !ok {
		reflectPanic("%s of non-struct type %s", meth, t)
	}
	return st
}

func typeString(t types.Type) string {
	return types.TypeString(t, func(p *types.Package) string { return p.Name() })
}

func methodSetOf(t types.Type) *types.MethodSet {
	return theInterp.prog.MethodSets.MethodSet(t)
}

func init() {
	rtypeMethods = map[string]func(fr *frame, args []value) value{
		"Kind":   func(fr *frame, args []value) value { return kindVal(args[0].(rtype).t) },
		"String": func(fr *frame, args []value) value { return typeString(args[0].(rtype).t) },
		"Name": func(fr *frame, args []value) value {
			switch t := args[0].(rtype).t.(type) {
			case *types.Named:
				return t.Obj().Name()
			case *types.Basic:
				return t.Name()
			case *types.Alias:
				return t.Obj().Name()
			}
			return ""
		},
		"PkgPath": func(fr *frame, args []value) value {
			if t, ok := args[0].(rtype).t.(*types.Named); ok && t.Obj().Pkg() != nil {
				return t.Obj().Pkg().Path()
			}
			return ""
		},
		"Elem": func(fr *frame, args []value) value {
			switch t := args[0].(rtype).t.Underlying().(type) {
			case *types.Pointer:
				return makeReflectType(rtype{t.Elem()})
			case *types.Slice:
				return makeReflectType(rtype{t.Elem()})
			case *types.Array:
				return makeReflectType(rtype{t.Elem()})
			case *types.Map:
				return makeReflectType(rtype{t.Elem()})
			case *types.Chan:
				return makeReflectType(rtype{t.Elem()})
			}
			reflectPanic("Elem of invalid type %s", typeString(args[0].(rtype).t))
			return nil
		},
		"Key": func(fr *frame, args []value) value {
			if t, ok := args[0].(rtype).t.Underlying().(*types.Map); ok {
				return makeReflectType(rtype{t.Key()})
			}
			reflectPanic("Key of non-map type %s", typeString(args[0].(rtype).t))
			return nil
		},
		"Len": func(fr *frame, args []value) value {
			if t, ok := args[0].(rtype).t.Underlying().(*types.Array); ok {
				return int(t.Len())
			}
			reflectPanic("Len of non-array type %s", typeString(args[0].(rtype).t))
			return nil
		},
		"NumField": func(fr *frame, args []value) value {
			return underStruct(args[0].(rtype).t, "NumField").NumFields()
		},
		"Field": func(fr *frame, args []value) value {
			st := underStruct(args[0].(rtype).t, "Field")
			i := int(asInt64(args[1]))
			if i < 0 || i >= st.NumFields() {
				reflectPanic("Field index out of bounds")
			}
			return structFieldValue(st, i, []int{i})
		},
		"FieldByName": func(fr *frame, args []value) value {
			st := underStruct(args[0].(rtype).t, "FieldByName")
			name := args[1].(string)
			for i := 0; i < st.NumFields(); i++ {
				if st.Field(i).Name() == name {
					return tuple{structFieldValue(st, i, []int{i}), true}
				}
			}
			// promoted fields through embedded structs (one level of search, breadth first)
			obj, index, _ := types.LookupFieldOrMethod(args[0].(rtype).t, true, nil, name)
			if v, ok := obj.(*types.Var); ok && v.IsField() && len(index) > 1 {
				cur := args[0].(rtype).t
				var stv *types.Struct
				for k, ix := range index {
					if p, ok := cur.Underlying().(*types.Pointer); ok {
						cur = p.Elem()
					}
					stv = cur.Underlying().(*types.Struct)
					if k < len(index)-1 {
						cur = stv.Field(ix).Type()
					}
				}
				return tuple{structFieldValue(stv, index[len(index)-1], index), true}
			}
			return tuple{zero(fr.fn.Signature.Results().At(0).Type()), false}
		},
		"Implements": func(fr *frame, args []value) value {
			u := typeArg(args[1])
			it, ok := u.Underlying().(*types.Interface)
			if !ok {
				reflectPanic("non-interface type passed to Type.Implements")
			}
			return types.Implements(args[0].(rtype).t, it)
		},
		"AssignableTo":  func(fr *frame, args []value) value { return types.AssignableTo(args[0].(rtype).t, typeArg(args[1])) },
		"ConvertibleTo": func(fr *frame, args []value) value { return convertibleTo(args[0].(rtype).t, typeArg(args[1])) },
		"Comparable":    func(fr *frame, args []value) value { return types.Comparable(args[0].(rtype).t) },
		"Bits": func(fr *frame, args []value) value {
			t := args[0].(rtype).t
			b, ok := t.Underlying().(*types.Basic)
			if !ok || b.Info()&types.IsNumeric == 0 {
				reflectPanic("Bits of non-arithmetic Type %s", typeString(t))
			}
			return int(theInterp.sizes.Sizeof(t)) * 8
		},
		"Size":  func(fr *frame, args []value) value { return uintptr(theInterp.sizes.Sizeof(args[0].(rtype).t)) },
		"Align": func(fr *frame, args []value) value { return int(theInterp.sizes.Alignof(args[0].(rtype).t)) },
		"NumMethod": func(fr *frame, args []value) value {
			t := args[0].(rtype).t
			if it, ok := t.Underlying().(*types.Interface); ok {
				return it.NumMethods()
			}
			ms := methodSetOf(t)
			n := 0
			for i := 0; i < ms.Len(); i++ {
				if ms.At(i).Obj().Exported() {
					n++
				}
			}
			return n
		},
		"NumIn":      func(fr *frame, args []value) value { return args[0].(rtype).t.Underlying().(*types.Signature).Params().Len() },
		"NumOut":     func(fr *frame, args []value) value { return args[0].(rtype).t.Underlying().(*types.Signature).Results().Len() },
		"IsVariadic": func(fr *frame, args []value) value { return args[0].(rtype).t.Underlying().(*types.Signature).Variadic() },
		"In": func(fr *frame, args []value) value {
			return makeReflectType(rtype{args[0].(rtype).t.Underlying().(*types.Signature).Params().At(int(asInt64(args[1]))).Type()})
		},
		"Out": func(fr *frame, args []value) value {
			return makeReflectType(rtype{args[0].(rtype).t.Underlying().(*types.Signature).Results().At(int(asInt64(args[1]))).Type()})
		},
		"ChanDir": func(fr *frame, args []value) value {
			c := args[0].(rtype).t.Underlying().(*types.Chan)
			switch c.Dir() {
			case types.SendOnly:
				return int(reflect.SendDir)
			case types.RecvOnly:
				return int(reflect.RecvDir)
			}
			return int(reflect.BothDir)
		},
	}
}

func convertibleTo(src, dst types.Type) bool {
	if types.ConvertibleTo(src, dst) {
		// go/types allows string(int) etc. exactly like reflect; slices to arrays need length
		// checks at run time (not used by dials)
		return true
	}
	return false
}

// ---------------------------------------------------------------------------------------------
// package-level functions and Value methods

func nativeMethod(recv iface, m *types.Func) (*nativeFn, bool) {
	if _, ok := recv.v.(*ctxObj); ok {
		if f := contextMethod(m.Name()); f != nil {
			return f, true
		}
	}
	switch recv.t {
	case rtypeType:
		return rtypeMethod(m.Name()), true
	case errorType:
		if m.Name() == "Error" {
			return &nativeFn{name: "error.Error", fn: func(fr *frame, args []value) value { return args[0].(engineErr).msg }}, true
		}
		if m.Name() == "Unwrap" {
			return &nativeFn{name: "error.Unwrap", fn: func(fr *frame, args []value) value {
				w := args[0].(engineErr).wrapped
				if w == nil {
					return iface{}
				}
				return *w
			}}, true
		}
	}
	return nil, false
}

// engineErr is the payload of errors made by engine stubs (fmt.Errorf, errors.New...).
type engineErr struct {
	msg     value  // string or symstr
	wrapped *iface // for %w
	id      int
}

func nativeEquals(x, y value) (value, bool) {
	switch x := x.(type) {
	case engineErr:
		if ye, ok := y.(engineErr); ok {
			return x.id == ye.id, true
		}
		return false, true
	case *nativeFn:
		return false, true
	case *smap:
		ym, ok := y.(*smap)
		return ok && x == ym, true
	case *mapIterState:
		return x == y, true
	case *ctxObj:
		return x == y, true
	case *syncObj:
		return x == y, true
	}
	return nil, false
}

func errorMessage(it iface) (string, bool) {
	if ee, ok := it.v.(engineErr); ok {
		return describeStr(ee.msg), true
	}
	return "", false
}

type mapIterState struct {
	m    *smap
	kt   types.Type
	vt   types.Type
	it   *smapIter
	k, v value
	ok   bool
	ro   uintptr
}

func rvArg(v value) rv {
	r := decodeRV(v)
	return r
}

func mustValid(r rv, meth string) {
	if !r.valid() {
		panic(targetPanic{iface{t: nil, v: "reflect: call of reflect.Value." + meth + " on zero Value"}})
	}
}

func mustKind(r rv, meth string, kinds ...reflect.Kind) reflect.Kind {
	mustValid(r, meth)
	k := reflectKind(r.t)
	for _, kk := range kinds {
		if k == kk {
			return k
		}
	}
	panic(targetPanic{iface{t: nil, v: "reflect: call of reflect.Value." + meth + " on " + k.String() + " Value"}})
}

func sliceID(s []value) uintptr {
	if cap(s) == 0 {
		if s == nil {
			return 0
		}
		return 0xc000000010
	}
	full := s[:cap(s)]
	// identity of the element the slice starts at: last-cell identity minus distance
	return ptrID(&full[cap(s)-1]) - uintptr(cap(s)-1)*8
}

func valuePointer(r rv, meth string) uintptr {
	k := mustKind(r, meth, reflect.Ptr, reflect.Map, reflect.Slice, reflect.Chan, reflect.Func, reflect.UnsafePointer)
	v := r.get()
	switch k {
	case reflect.Ptr:
		p, _ := v.(*value)
		if p == nil {
			return 0
		}
		return ptrID(p)
	case reflect.Map:
		m, _ := v.(*smap)
		if m == nil {
			return 0
		}
		return ptrID(m)
	case reflect.Slice:
		s, _ := v.([]value)
		return sliceID(s)
	case reflect.Chan:
		c, _ := v.(*mchan)
		if c == nil {
			return 0
		}
		return ptrID(c)
	case reflect.Func:
		switch f := v.(type) {
		case *ssa.Function:
			if f == nil {
				return 0
			}
			return ptrID(f)
		case *closure:
			return ptrID(f)
		}
		return 0
	}
	return 0
}

func isNilValue(r rv) bool {
	k := mustKind(r, "IsNil", reflect.Ptr, reflect.Map, reflect.Slice, reflect.Chan, reflect.Func, reflect.Interface, reflect.UnsafePointer)
	v := r.get()
	switch k {
	case reflect.Ptr:
		p, _ := v.(*value)
		return p == nil
	case reflect.Map:
		m, _ := v.(*smap)
		return m == nil
	case reflect.Slice:
		s, _ := v.([]value)
		return s == nil
	case reflect.Chan:
		c, _ := v.(*mchan)
		return c == nil
	case reflect.Func:
		switch f := v.(type) {
		case *ssa.Function:
			return f == nil
		case *closure:
			return f == nil
		case *nativeFn:
			return f == nil
		}
		return v == nil
	case reflect.Interface:
		it, _ := v.(iface)
		return it.t == nil
	}
	return v == nil
}

// isZeroV returns whether v of type t is the zero value (bool or symbolic bool).
func isZeroV(t types.Type, v value) value {
	switch tt := t.Underlying().(type) {
	case *types.Basic:
		if isStr(v) {
			return strLen(v) == 0
		}
		return equalsV(t, v, zero(t))
	case *types.Pointer:
		p, _ := v.(*value)
		return p == nil
	case *types.Slice:
		s, _ := v.([]value)
		return s == nil
	case *types.Map:
		m, _ := v.(*smap)
		return m == nil
	case *types.Chan:
		c, _ := v.(*mchan)
		return c == nil
	case *types.Signature:
		switch f := v.(type) {
		case *ssa.Function:
			return f == nil
		}
		return false
	case *types.Interface:
		return v.(iface).t == nil
	case *types.Struct:
		st := v.(structure)
		var acc value = true
		for i := 0; i < tt.NumFields(); i++ {
			acc = vand(acc, isZeroV(tt.Field(i).Type(), st[i]))
		}
		return acc
	case *types.Array:
		a := v.(array)
		var acc value = true
		for i := range a {
			acc = vand(acc, isZeroV(tt.Elem(), a[i]))
		}
		return acc
	}
	return false
}

func setValue(dst rv, src rv, meth string) {
	mustValid(dst, meth)
	if dst.flags&flagAddr == 0 {
		panic(targetPanic{iface{t: nil, v: "reflect: reflect.Value." + meth + " using unaddressable value"}})
	}
	if dst.flags&flagRO != 0 {
		panic(targetPanic{iface{t: nil, v: "reflect: reflect.Value." + meth + " using value obtained using unexported field"}})
	}
	if !src.valid() {
		panic(targetPanic{iface{t: nil, v: "reflect: call of reflect.Value.Set on zero Value"}})
	}
	if src.flags&flagRO != 0 {
		panic(targetPanic{iface{t: nil, v: "reflect: reflect.Value.Set using value obtained using unexported field"}})
	}
	nv := assignConv(src, dst.t, "reflect.Set")
	store(dst.t, dst.p.(*value), nv)
}

// assignConv returns src's value as a value of type dst (boxing into interfaces).
func assignConv(src rv, dst types.Type, ctx string) value {
	if !types.AssignableTo(src.t, dst) {
		panic(targetPanic{iface{t: nil, v: ctx + ": value of type " + typeString(src.t) + " is not assignable to type " + typeString(dst)}})
	}
	v := src.copyOut()
	if _, ok := dst.Underlying().(*types.Interface); ok {
		if _, srcIsIface := src.t.Underlying().(*types.Interface); srcIsIface {
			return v
		}
		return iface{t: src.t, v: v}
	}
	return v
}

func convertValue(src rv, dst types.Type) rv {
	if !convertibleTo(src.t, dst) {
		panic(targetPanic{iface{t: nil, v: "reflect.Value.Convert: value of type " + typeString(src.t) + " cannot be converted to type " + typeString(dst)}})
	}
	v := src.copyOut()
	ro := src.flags & flagRO
	if _, ok := dst.Underlying().(*types.Interface); ok {
		if _, srcIsIface := src.t.Underlying().(*types.Interface); srcIsIface {
			return rv{t: dst, p: v, flags: ro}
		}
		return rv{t: dst, p: iface{t: src.t, v: v}, flags: ro}
	}
	_, sb := src.t.Underlying().(*types.Basic)
	_, db := dst.Underlying().(*types.Basic)
	if sb && db {
		if reflectKind(src.t) == reflect.Bool || (reflectKind(src.t) == reflect.String && reflectKind(dst) == reflect.String) {
			return rv{t: dst, p: v, flags: ro}
		}
		return rv{t: dst, p: conv(dst, src.t, v), flags: ro}
	}
	if sb != db {
		// string <-> []byte / []rune
		return rv{t: dst, p: conv(dst, src.t, v), flags: ro}
	}
	return rv{t: dst, p: v, flags: ro}
}

func overflowInt(t types.Type, x value) value {
	bits := uint(theInterp.sizes.Sizeof(t)) * 8
	// trunc := (x << (64 - bitSize)) >> (64 - bitSize); return x != trunc
	sh := uint64(64 - bits)
	shl := binop(token.SHL, types.Typ[types.Int64], x, sh)
	shr := binop(token.SHR, types.Typ[types.Int64], shl, sh)
	return binop(token.NEQ, types.Typ[types.Int64], x, shr)
}

func overflowUint(t types.Type, x value) value {
	bits := uint(theInterp.sizes.Sizeof(t)) * 8
	sh := uint64(64 - bits)
	shl := binop(token.SHL, types.Typ[types.Uint64], x, sh)
	shr := binop(token.SHR, types.Typ[types.Uint64], shl, sh)
	return binop(token.NEQ, types.Typ[types.Uint64], x, shr)
}

func initReflectModel(i *interpreter) {}

func init() {
	ext := map[string]externalFn{
		"reflect.TypeOf": func(fr *frame, args []value) value {
			return makeReflectType(rtype{args[0].(iface).t})
		},
		"reflect.ValueOf": func(fr *frame, args []value) value {
			it := args[0].(iface)
			if it.t == nil {
				return rv{}.enc()
			}
			return rv{t: it.t, p: it.v}.enc()
		},
		"reflect.Zero": func(fr *frame, args []value) value {
			t := typeArg(args[0])
			return rv{t: t, p: zero(t)}.enc()
		},
		"reflect.New": func(fr *frame, args []value) value {
			t := typeArg(args[0])
			cell := zero(t)
			return rv{t: types.NewPointer(t), p: &cell}.enc()
		},
		"reflect.Indirect": func(fr *frame, args []value) value {
			r := rvArg(args[0])
			if r.valid() && reflectKind(r.t) == reflect.Ptr {
				return externals["(reflect.Value).Elem"](fr, args)
			}
			return args[0]
		},
		"reflect.PtrTo":     func(fr *frame, args []value) value { return makeReflectType(rtype{types.NewPointer(typeArg(args[0]))}) },
		"reflect.PointerTo": func(fr *frame, args []value) value { return makeReflectType(rtype{types.NewPointer(typeArg(args[0]))}) },
		"reflect.SliceOf":   func(fr *frame, args []value) value { return makeReflectType(rtype{types.NewSlice(typeArg(args[0]))}) },
		"reflect.MapOf": func(fr *frame, args []value) value {
			k := typeArg(args[0])
			if !types.Comparable(k) {
				reflectPanic("reflect.MapOf: invalid key type %s", typeString(k))
			}
			return makeReflectType(rtype{types.NewMap(k, typeArg(args[1]))})
		},
		"reflect.ArrayOf": func(fr *frame, args []value) value {
			n := asInt64(args[0])
			if n < 0 {
				reflectPanic("reflect: negative length passed to ArrayOf")
			}
			return makeReflectType(rtype{types.NewArray(typeArg(args[1]), n)})
		},
		"reflect.ChanOf": func(fr *frame, args []value) value {
			dir := types.SendRecv
			switch reflect.ChanDir(asInt64(args[0])) {
			case reflect.SendDir:
				dir = types.SendOnly
			case reflect.RecvDir:
				dir = types.RecvOnly
			}
			return makeReflectType(rtype{types.NewChan(dir, typeArg(args[1]))})
		},
		"reflect.StructOf": func(fr *frame, args []value) value { return makeReflectType(rtype{structOf(args[0])}) },
		"reflect.MakeSlice": func(fr *frame, args []value) value {
			t := typeArg(args[0])
			st, ok := t.Underlying().(*types.Slice)
			if !ok {
				reflectPanic("reflect.MakeSlice of non-slice type")
			}
			n, c := asInt64(args[1]), asInt64(args[2])
			if n < 0 {
				reflectPanic("reflect.MakeSlice: negative len")
			}
			if c < 0 {
				reflectPanic("reflect.MakeSlice: negative cap")
			}
			if n > c {
				reflectPanic("reflect.MakeSlice: len > cap")
			}
			if c > 1<<20 {
				unsupported("reflect.MakeSlice with capacity %d", c)
			}
			s := make([]value, c)
			for k := range s {
				s[k] = zero(st.Elem())
			}
			return rv{t: t, p: s[:n]}.enc()
		},
		"reflect.MakeMap": func(fr *frame, args []value) value {
			t := typeArg(args[0])
			mt, ok := t.Underlying().(*types.Map)
			if !ok {
				reflectPanic("reflect.MakeMap of non-map type")
			}
			m := makeMap(mt.Key(), 0).(*smap)
			m.epoch = theInterp.epoch
			return rv{t: t, p: m}.enc()
		},
		"reflect.MakeMapWithSize": func(fr *frame, args []value) value {
			return externals["reflect.MakeMap"](fr, args[:1])
		},
		"reflect.MakeChan": func(fr *frame, args []value) value {
			t := typeArg(args[0])
			ct := t.Underlying().(*types.Chan)
			var c *mchan
			if cur != nil && cur.sched != nil {
				c = cur.sched.newChan(int(asInt64(args[1])), ct.Elem())
			} else {
				c = &mchan{id: -1, cap: int(asInt64(args[1])), elem: ct.Elem()}
			}
			return rv{t: t, p: c}.enc()
		},
		"reflect.Append": func(fr *frame, args []value) value {
			s := rvArg(args[0])
			mustKind(s, "Append", reflect.Slice)
			et := s.t.Underlying().(*types.Slice).Elem()
			cur0, _ := s.get().([]value)
			var add []value
			for _, xv := range args[1].([]value) {
				x := rvArg(xv)
				if !x.valid() {
					reflectPanic("reflect.Append: zero Value")
				}
				add = append(add, assignConv(x, et, "reflect.Append"))
			}
			return rv{t: s.t, p: appendLogged(cur0, add)}.enc()
		},
		"reflect.Copy": func(fr *frame, args []value) value {
			d, sv := rvArg(args[0]), rvArg(args[1])
			dk := mustKind(d, "Copy", reflect.Slice, reflect.Array)
			if dk == reflect.Array && (d.flags&flagAddr == 0 || d.flags&flagRO != 0) {
				reflectPanic("reflect.Copy: unaddressable or unexported array value")
			}
			if d.flags&flagRO != 0 || sv.flags&flagRO != 0 {
				reflectPanic("reflect.Copy: value obtained using unexported field")
			}
			sk := mustKind(sv, "Copy", reflect.Slice, reflect.Array, reflect.String)
			elemOf := func(t types.Type) types.Type {
				switch u := t.Underlying().(type) {
				case *types.Slice:
					return u.Elem()
				case *types.Array:
					return u.Elem()
				}
				return types.Typ[types.Uint8]
			}
			det := elemOf(d.t)
			if sk == reflect.String {
				if b, ok := det.Underlying().(*types.Basic); !ok || b.Kind() != types.Uint8 {
					reflectPanic("reflect.Copy: string source needs a byte destination")
				}
			} else if !types.Identical(det, elemOf(sv.t)) {
				reflectPanic("reflect.Copy: " + typeString(det) + " != " + typeString(elemOf(sv.t)))
			}
			var dst []value
			if dk == reflect.Slice {
				dst, _ = d.get().([]value)
			} else {
				dst = []value(d.get().(array))
			}
			var src []value
			switch sk {
			case reflect.Slice:
				src, _ = sv.get().([]value)
			case reflect.Array:
				src = []value(sv.get().(array))
			default:
				for _, b := range strBytes(sv.get()) {
					src = append(src, b)
				}
			}
			n := len(dst)
			if len(src) < n {
				n = len(src)
			}
			tmp := make([]value, n) // memmove semantics for overlapping operands
			for i := 0; i < n; i++ {
				tmp[i] = copyVal(det, src[i])
			}
			for i := 0; i < n; i++ {
				store(det, &dst[i], tmp[i])
			}
			return n
		},
		"reflect.AppendSlice": func(fr *frame, args []value) value {
			s, t := rvArg(args[0]), rvArg(args[1])
			mustKind(s, "AppendSlice", reflect.Slice)
			mustKind(t, "AppendSlice", reflect.Slice)
			if !types.Identical(s.t.Underlying().(*types.Slice).Elem(), t.t.Underlying().(*types.Slice).Elem()) {
				reflectPanic("reflect.AppendSlice: " + typeString(s.t) + " != " + typeString(t.t))
			}
			cur0, _ := s.get().([]value)
			src, _ := t.get().([]value)
			add := make([]value, len(src))
			for i := range src {
				add[i] = copyVal(s.t.Underlying().(*types.Slice).Elem(), src[i])
			}
			return rv{t: s.t, p: appendLogged(cur0, add)}.enc()
		},
		"reflect.DeepEqual": func(fr *frame, args []value) value {
			a, b := args[0].(iface), args[1].(iface)
			if a.t == nil || b.t == nil {
				return a.t == nil && b.t == nil
			}
			if !types.Identical(a.t, b.t) {
				return false
			}
			return deepEqual(a.t, a.v, b.v, map[[2]interface{}]bool{}, 0)
		},

		"(reflect.Value).IsValid": func(fr *frame, args []value) value { return rvArg(args[0]).valid() },
		"(reflect.Value).Kind": func(fr *frame, args []value) value {
			r := rvArg(args[0])
			if !r.valid() {
				return uint(reflect.Invalid)
			}
			return kindVal(r.t)
		},
		"(reflect.Value).Type": func(fr *frame, args []value) value {
			r := rvArg(args[0])
			mustValid(r, "Type")
			return makeReflectType(rtype{r.t})
		},
		"(reflect.Value).CanAddr": func(fr *frame, args []value) value { return rvArg(args[0]).flags&flagAddr != 0 },
		"(reflect.Value).CanSet": func(fr *frame, args []value) value {
			r := rvArg(args[0])
			return r.flags&flagAddr != 0 && r.flags&flagRO == 0
		},
		"(reflect.Value).CanInterface": func(fr *frame, args []value) value {
			r := rvArg(args[0])
			mustValid(r, "CanInterface")
			return r.flags&flagRO == 0
		},
		"(reflect.Value).Elem": func(fr *frame, args []value) value {
			r := rvArg(args[0])
			k := mustKind(r, "Elem", reflect.Ptr, reflect.Interface)
			if k == reflect.Ptr {
				p, _ := r.get().(*value)
				if p == nil {
					return rv{}.enc()
				}
				return rv{t: r.t.Underlying().(*types.Pointer).Elem(), p: p, flags: flagAddr | (r.flags & flagRO)}.enc()
			}
			it := r.get().(iface)
			if it.t == nil {
				return rv{}.enc()
			}
			return rv{t: it.t, p: it.v, flags: r.flags & flagRO}.enc()
		},
		"(reflect.Value).Addr": func(fr *frame, args []value) value {
			r := rvArg(args[0])
			if r.flags&flagAddr == 0 {
				panic(targetPanic{iface{t: nil, v: "reflect.Value.Addr of unaddressable value"}})
			}
			return rv{t: types.NewPointer(r.t), p: r.p, flags: r.flags & flagRO}.enc()
		},
		"(reflect.Value).NumField": func(fr *frame, args []value) value {
			r := rvArg(args[0])
			mustKind(r, "NumField", reflect.Struct)
			return r.t.Underlying().(*types.Struct).NumFields()
		},
		"(reflect.Value).Field": func(fr *frame, args []value) value {
			r := rvArg(args[0])
			mustKind(r, "Field", reflect.Struct)
			return fieldOf(r, int(asInt64(args[1]))).enc()
		},
		"(reflect.Value).FieldByName": func(fr *frame, args []value) value {
			r := rvArg(args[0])
			mustKind(r, "FieldByName", reflect.Struct)
			st := r.t.Underlying().(*types.Struct)
			name := args[1].(string)
			for i := 0; i < st.NumFields(); i++ {
				if st.Field(i).Name() == name {
					return fieldOf(r, i).enc()
				}
			}
			// promoted field through embedded structs (panics on a nil embedded pointer, like reflect)
			obj, index, _ := types.LookupFieldOrMethod(r.t, true, nil, name)
			if v, ok := obj.(*types.Var); ok && v.IsField() && len(index) > 1 {
				var idx []value
				for _, k := range index {
					idx = append(idx, k)
				}
				res, err := fieldByIndex(r, idx)
				if err != "" {
					panic(targetPanic{iface{t: nil, v: err}})
				}
				return res.enc()
			}
			return rv{}.enc()
		},
		"(reflect.Value).FieldByIndex": func(fr *frame, args []value) value {
			r, err := fieldByIndex(rvArg(args[0]), args[1].([]value))
			if err != "" {
				panic(targetPanic{iface{t: nil, v: err}})
			}
			return r.enc()
		},
		"(reflect.Value).FieldByIndexErr": func(fr *frame, args []value) value {
			r, err := fieldByIndex(rvArg(args[0]), args[1].([]value))
			if err != "" {
				return tuple{rv{}.enc(), newEngineErr(err, nil)}
			}
			return tuple{r.enc(), iface{}}
		},
		"(reflect.Value).Len": func(fr *frame, args []value) value {
			r := rvArg(args[0])
			k := mustKind(r, "Len", reflect.Slice, reflect.Array, reflect.Map, reflect.String, reflect.Chan)
			v := r.get()
			switch k {
			case reflect.Slice:
				s, _ := v.([]value)
				return len(s)
			case reflect.Array:
				return len(v.(array))
			case reflect.Map:
				m, _ := v.(*smap)
				return m.len()
			case reflect.String:
				return strLen(v)
			}
			c, _ := v.(*mchan)
			if c == nil {
				return 0
			}
			return len(c.buf)
		},
		"(reflect.Value).Cap": func(fr *frame, args []value) value {
			r := rvArg(args[0])
			k := mustKind(r, "Cap", reflect.Slice, reflect.Array, reflect.Chan)
			v := r.get()
			switch k {
			case reflect.Slice:
				s, _ := v.([]value)
				return cap(s)
			case reflect.Array:
				return len(v.(array))
			}
			c, _ := v.(*mchan)
			if c == nil {
				return 0
			}
			return c.cap
		},
		"(reflect.Value).Index": func(fr *frame, args []value) value {
			r := rvArg(args[0])
			k := mustKind(r, "Index", reflect.Slice, reflect.Array, reflect.String)
			i := int(asInt64(args[1]))
			ro := r.flags & flagRO
			switch k {
			case reflect.Slice:
				s, _ := r.get().([]value)
				if i < 0 || i >= len(s) {
					reflectPanic("slice index out of range")
				}
				return rv{t: r.t.Underlying().(*types.Slice).Elem(), p: &s[i], flags: flagAddr | ro}.enc()
			case reflect.Array:
				et := r.t.Underlying().(*types.Array).Elem()
				a := r.get().(array)
				if i < 0 || i >= len(a) {
					reflectPanic("array index out of range")
				}
				if r.flags&flagAddr != 0 {
					return rv{t: et, p: &a[i], flags: flagAddr | ro}.enc()
				}
				return rv{t: et, p: a[i], flags: ro}.enc()
			}
			b := strBytes(r.get())
			if i < 0 || i >= len(b) {
				reflectPanic("string index out of range")
			}
			return rv{t: types.Typ[types.Uint8], p: b[i], flags: ro}.enc()
		},
		"(reflect.Value).Slice": func(fr *frame, args []value) value {
			r := rvArg(args[0])
			k := mustKind(r, "Slice", reflect.Slice, reflect.Array, reflect.String)
			i, j := int(asInt64(args[1])), int(asInt64(args[2]))
			switch k {
			case reflect.Slice:
				s, _ := r.get().([]value)
				if i < 0 || j < i || j > cap(s) {
					reflectPanic("reflect.Value.Slice: slice index out of bounds")
				}
				return rv{t: r.t, p: s[i:j], flags: r.flags & flagRO}.enc()
			case reflect.Array:
				if r.flags&flagAddr == 0 {
					reflectPanic("reflect.Value.Slice: slice of unaddressable array")
				}
				a := r.get().(array)
				if i < 0 || j < i || j > len(a) {
					reflectPanic("reflect.Value.Slice: slice index out of bounds")
				}
				return rv{t: types.NewSlice(r.t.Underlying().(*types.Array).Elem()), p: []value(a)[i:j], flags: r.flags & flagRO}.enc()
			}
			b := strBytes(r.get())
			if i < 0 || j < i || j > len(b) {
				reflectPanic("reflect.Value.Slice: string slice index out of bounds")
			}
			return rv{t: r.t, p: normStr(b[i:j:j]), flags: r.flags & flagRO}.enc()
		},
		"(reflect.Value).IsNil":  func(fr *frame, args []value) value { return isNilValue(rvArg(args[0])) },
		"(reflect.Value).IsZero": func(fr *frame, args []value) value {
			r := rvArg(args[0])
			mustValid(r, "IsZero")
			return isZeroV(r.t, r.get())
		},
		"(reflect.Value).Set": func(fr *frame, args []value) value {
			setValue(rvArg(args[0]), rvArg(args[1]), "Set")
			return nil
		},
		"(reflect.Value).SetZero": func(fr *frame, args []value) value {
			d := rvArg(args[0])
			setValue(d, rv{t: d.t, p: zero(d.t)}, "SetZero")
			return nil
		},
		"(reflect.Value).Interface": func(fr *frame, args []value) value {
			r := rvArg(args[0])
			mustValid(r, "Interface")
			if r.flags&flagRO != 0 {
				panic(targetPanic{iface{t: nil, v: "reflect.Value.Interface: cannot return value obtained from unexported field or method"}})
			}
			v := r.copyOut()
			if _, ok := r.t.Underlying().(*types.Interface); ok {
				return v
			}
			return iface{t: r.t, v: v}
		},
		"(reflect.Value).Pointer":       func(fr *frame, args []value) value { return valuePointer(rvArg(args[0]), "Pointer") },
		"(reflect.Value).UnsafePointer": func(fr *frame, args []value) value { return unsafePtr{valuePointer(rvArg(args[0]), "UnsafePointer")} },
		"(reflect.Value).UnsafeAddr": func(fr *frame, args []value) value {
			r := rvArg(args[0])
			if r.flags&flagAddr == 0 {
				reflectPanic("reflect.Value.UnsafeAddr of unaddressable value")
			}
			return ptrID(r.p.(*value))
		},
		"(reflect.Value).Convert": func(fr *frame, args []value) value {
			r := rvArg(args[0])
			mustValid(r, "Convert")
			return convertValue(r, typeArg(args[1])).enc()
		},
		"(reflect.Value).CanConvert": func(fr *frame, args []value) value {
			r := rvArg(args[0])
			mustValid(r, "CanConvert")
			return convertibleTo(r.t, typeArg(args[1]))
		},
		"(reflect.Value).Int": func(fr *frame, args []value) value {
			r := rvArg(args[0])
			mustKind(r, "Int", reflect.Int, reflect.Int8, reflect.Int16, reflect.Int32, reflect.Int64)
			return conv(types.Typ[types.Int64], r.t, r.get())
		},
		"(reflect.Value).Uint": func(fr *frame, args []value) value {
			r := rvArg(args[0])
			mustKind(r, "Uint", reflect.Uint, reflect.Uint8, reflect.Uint16, reflect.Uint32, reflect.Uint64, reflect.Uintptr)
			return conv(types.Typ[types.Uint64], r.t, r.get())
		},
		"(reflect.Value).Float": func(fr *frame, args []value) value {
			r := rvArg(args[0])
			mustKind(r, "Float", reflect.Float32, reflect.Float64)
			return conv(types.Typ[types.Float64], r.t, r.get())
		},
		"(reflect.Value).Complex": func(fr *frame, args []value) value {
			r := rvArg(args[0])
			mustKind(r, "Complex", reflect.Complex64, reflect.Complex128)
			return conv(types.Typ[types.Complex128], r.t, r.get())
		},
		"(reflect.Value).Bool": func(fr *frame, args []value) value {
			r := rvArg(args[0])
			mustKind(r, "Bool", reflect.Bool)
			return r.get()
		},
		"(reflect.Value).String": func(fr *frame, args []value) value {
			r := rvArg(args[0])
			if !r.valid() {
				return "<invalid Value>"
			}
			if reflectKind(r.t) == reflect.String {
				return r.get()
			}
			return "<" + typeString(r.t) + " Value>"
		},
		"(reflect.Value).Bytes": func(fr *frame, args []value) value {
			r := rvArg(args[0])
			mustKind(r, "Bytes", reflect.Slice)
			return r.get()
		},
		"(reflect.Value).OverflowInt": func(fr *frame, args []value) value {
			r := rvArg(args[0])
			mustKind(r, "OverflowInt", reflect.Int, reflect.Int8, reflect.Int16, reflect.Int32, reflect.Int64)
			return overflowInt(r.t, args[1])
		},
		"(reflect.Value).OverflowUint": func(fr *frame, args []value) value {
			r := rvArg(args[0])
			mustKind(r, "OverflowUint", reflect.Uint, reflect.Uint8, reflect.Uint16, reflect.Uint32, reflect.Uint64, reflect.Uintptr)
			return overflowUint(r.t, args[1])
		},
		"(reflect.Value).OverflowFloat": func(fr *frame, args []value) value {
			r := rvArg(args[0])
			k := mustKind(r, "OverflowFloat", reflect.Float32, reflect.Float64)
			x := args[1].(float64)
			if k == reflect.Float32 {
				return reflect.Zero(reflect.TypeOf(float32(0))).OverflowFloat(x)
			}
			return false
		},
		"(reflect.Value).OverflowComplex": func(fr *frame, args []value) value {
			r := rvArg(args[0])
			k := mustKind(r, "OverflowComplex", reflect.Complex64, reflect.Complex128)
			x := args[1].(complex128)
			if k == reflect.Complex64 {
				return reflect.Zero(reflect.TypeOf(complex64(0))).OverflowComplex(x)
			}
			return false
		},
		"(reflect.Value).SetInt":    setScalar("SetInt", reflect.Int, reflect.Int8, reflect.Int16, reflect.Int32, reflect.Int64),
		"(reflect.Value).SetUint":   setScalar("SetUint", reflect.Uint, reflect.Uint8, reflect.Uint16, reflect.Uint32, reflect.Uint64, reflect.Uintptr),
		"(reflect.Value).SetFloat":  setScalar("SetFloat", reflect.Float32, reflect.Float64),
		"(reflect.Value).SetBool":   setScalar("SetBool", reflect.Bool),
		"(reflect.Value).SetString": setScalar("SetString", reflect.String),
		"(reflect.Value).SetLen": func(fr *frame, args []value) value {
			r := rvArg(args[0])
			mustKind(r, "SetLen", reflect.Slice)
			s, _ := r.get().([]value)
			n := int(asInt64(args[1]))
			if n < 0 || n > cap(s) {
				reflectPanic("reflect: slice length out of range in SetLen")
			}
			setValue(r, rv{t: r.t, p: s[:n]}, "SetLen")
			return nil
		},
		"(reflect.Value).Grow": func(fr *frame, args []value) value {
			r := rvArg(args[0])
			mustKind(r, "Grow", reflect.Slice)
			n := int(asInt64(args[1]))
			if n < 0 {
				reflectPanic("reflect.Value.Grow: negative len")
			}
			s, _ := r.get().([]value)
			if len(s)+n > cap(s) {
				ns := make([]value, len(s), len(s)+n)
				copy(ns, s)
				et := r.t.Underlying().(*types.Slice).Elem()
				full := ns[:cap(ns)]
				for k := len(s); k < len(full); k++ {
					full[k] = zero(et)
				}
				setValue(r, rv{t: r.t, p: ns}, "Grow")
			}
			return nil
		},
		"(reflect.Value).MapIndex": func(fr *frame, args []value) value {
			r := rvArg(args[0])
			mustKind(r, "MapIndex", reflect.Map)
			mt := r.t.Underlying().(*types.Map)
			k := rvArg(args[1])
			m, _ := r.get().(*smap)
			kv := assignConv(k, mt.Key(), "reflect.Value.MapIndex")
			v, ok := m.lookup(kv)
			if !ok {
				return rv{}.enc()
			}
			return rv{t: mt.Elem(), p: copyVal(mt.Elem(), v), flags: (r.flags | k.flags) & flagRO}.enc()
		},
		"(reflect.Value).SetMapIndex": func(fr *frame, args []value) value {
			r := rvArg(args[0])
			mustKind(r, "SetMapIndex", reflect.Map)
			if r.flags&flagRO != 0 {
				reflectPanic("reflect.Value.SetMapIndex using value obtained using unexported field")
			}
			mt := r.t.Underlying().(*types.Map)
			k := rvArg(args[1])
			e := rvArg(args[2])
			m, _ := r.get().(*smap)
			kv := assignConv(k, mt.Key(), "reflect.Value.SetMapIndex")
			if !e.valid() {
				theInterp.logMap(m)
				m.delete(kv)
				return nil
			}
			if m == nil {
				panic(runtimeError("assignment to entry in nil map"))
			}
			theInterp.logMap(m)
			m.insert(kv, assignConv(e, mt.Elem(), "reflect.Value.SetMapIndex"))
			return nil
		},
		"(reflect.Value).MapKeys": func(fr *frame, args []value) value {
			r := rvArg(args[0])
			mustKind(r, "MapKeys", reflect.Map)
			mt := r.t.Underlying().(*types.Map)
			m, _ := r.get().(*smap)
			var out []value
			if m != nil {
				for _, k := range m.keys {
					out = append(out, rv{t: mt.Key(), p: copyVal(mt.Key(), k), flags: r.flags & flagRO}.enc())
				}
			}
			return out
		},
		"(reflect.Value).MapRange": func(fr *frame, args []value) value {
			r := rvArg(args[0])
			mustKind(r, "MapRange", reflect.Map)
			mt := r.t.Underlying().(*types.Map)
			m, _ := r.get().(*smap)
			st := &mapIterState{m: m, kt: mt.Key(), vt: mt.Elem(), ro: r.flags & flagRO}
			if m != nil {
				st.it = &smapIter{m: m, keys: append([]value(nil), m.keys...)}
			}
			return st
		},
		"(*reflect.MapIter).Next": func(fr *frame, args []value) value {
			st := args[0].(*mapIterState)
			if st.it == nil {
				st.ok = false
				return false
			}
			t := st.it.next()
			st.ok = t[0].(bool)
			if st.ok {
				st.k, st.v = t[1], t[2]
			}
			return st.ok
		},
		"(*reflect.MapIter).Key": func(fr *frame, args []value) value {
			st := args[0].(*mapIterState)
			if !st.ok {
				reflectPanic("MapIter.Key called before Next")
			}
			return rv{t: st.kt, p: copyVal(st.kt, st.k), flags: st.ro}.enc()
		},
		"(*reflect.MapIter).Value": func(fr *frame, args []value) value {
			st := args[0].(*mapIterState)
			if !st.ok {
				reflectPanic("MapIter.Value called before Next")
			}
			return rv{t: st.vt, p: copyVal(st.vt, st.v), flags: st.ro}.enc()
		},
		"(reflect.Value).NumMethod": func(fr *frame, args []value) value {
			r := rvArg(args[0])
			mustValid(r, "NumMethod")
			return rtypeMethods["NumMethod"](fr, []value{rtype{r.t}})
		},
		"(reflect.Kind).String":     func(fr *frame, args []value) value { return reflect.Kind(asInt64(args[0])).String() },
		"(reflect.StructTag).Get":   func(fr *frame, args []value) value { return reflect.StructTag(args[0].(string)).Get(args[1].(string)) },
		"(reflect.StructTag).Lookup": func(fr *frame, args []value) value {
			v, ok := reflect.StructTag(args[0].(string)).Lookup(args[1].(string))
			return tuple{v, ok}
		},
		"(reflect.StructField).IsExported": func(fr *frame, args []value) value {
			return args[0].(structure)[1].(string) == ""
		},
		"(*reflect.ValueError).Error": func(fr *frame, args []value) value { return "reflect: ValueError" },
	}
	for k, v := range ext {
		externals[k] = v
	}
}

func setScalar(meth string, kinds ...reflect.Kind) externalFn {
	return func(fr *frame, args []value) value {
		r := rvArg(args[0])
		mustKind(r, meth, kinds...)
		var srcT types.Type
		switch meth {
		case "SetInt":
			srcT = types.Typ[types.Int64]
		case "SetUint":
			srcT = types.Typ[types.Uint64]
		case "SetFloat":
			srcT = types.Typ[types.Float64]
		case "SetBool":
			srcT = types.Typ[types.Bool]
		case "SetString":
			srcT = types.Typ[types.String]
		}
		var nv value = args[1]
		if meth != "SetBool" && meth != "SetString" {
			nv = conv(r.t, srcT, args[1])
		}
		setValue(r, rv{t: r.t, p: nv}, meth)
		return nil
	}
}

func fieldOf(r rv, i int) rv {
	st := r.t.Underlying().(*types.Struct)
	if i < 0 || i >= st.NumFields() {
		reflectPanic("Field index out of range")
	}
	f := st.Field(i)
	ro := r.flags & flagRO
	if !f.Exported() {
		ro = flagRO
	}
	if r.flags&flagAddr != 0 {
		cell := r.p.(*value)
		return rv{t: f.Type(), p: &(*cell).(structure)[i], flags: flagAddr | ro}
	}
	return rv{t: f.Type(), p: r.p.(structure)[i], flags: ro}
}

func fieldByIndex(r rv, index []value) (rv, string) {
	if len(index) == 1 {
		mustKind(r, "FieldByIndex", reflect.Struct)
		return fieldOf(r, int(asInt64(index[0]))), ""
	}
	mustKind(r, "FieldByIndex", reflect.Struct)
	for k, ix := range index {
		if k > 0 {
			if reflectKind(r.t) == reflect.Ptr && reflectKind(r.t.Underlying().(*types.Pointer).Elem()) == reflect.Struct {
				p, _ := r.get().(*value)
				if p == nil {
					return rv{}, "reflect: indirection through nil pointer to embedded struct field " + typeString(r.t)
				}
				r = rv{t: r.t.Underlying().(*types.Pointer).Elem(), p: p, flags: flagAddr | (r.flags & flagRO)}
			}
		}
		mustKind(r, "FieldByIndex", reflect.Struct)
		r = fieldOf(r, int(asInt64(ix)))
	}
	return r, ""
}

// deepEqual: structural equality like reflect.DeepEqual (cycle tolerant). Forks on symbolic leaves.
func deepEqual(t types.Type, a, b value, seen map[[2]interface{}]bool, depth int) bool {
	if depth > 200 {
		return true
	}
	switch tt := t.Underlying().(type) {
	case *types.Basic:
		return truth(equalsV(t, a, b))
	case *types.Pointer:
		pa, _ := a.(*value)
		pb, _ := b.(*value)
		if pa == nil || pb == nil {
			return pa == pb
		}
		if pa == pb {
			return true
		}
		key := [2]interface{}{pa, pb}
		if seen[key] {
			return true
		}
		seen[key] = true
		return deepEqual(tt.Elem(), *pa, *pb, seen, depth+1)
	case *types.Struct:
		sa, sb := a.(structure), b.(structure)
		for i := 0; i < tt.NumFields(); i++ {
			if !deepEqual(tt.Field(i).Type(), sa[i], sb[i], seen, depth+1) {
				return false
			}
		}
		return true
	case *types.Array:
		aa, ab := a.(array), b.(array)
		for i := range aa {
			if !deepEqual(tt.Elem(), aa[i], ab[i], seen, depth+1) {
				return false
			}
		}
		return true
	case *types.Slice:
		sa, _ := a.([]value)
		sb, _ := b.([]value)
		if (sa == nil) != (sb == nil) || len(sa) != len(sb) {
			return false
		}
		if len(sa) > 0 && &sa[0] == &sb[0] {
			return true
		}
		for i := range sa {
			if !deepEqual(tt.Elem(), sa[i], sb[i], seen, depth+1) {
				return false
			}
		}
		return true
	case *types.Map:
		ma, _ := a.(*smap)
		mb, _ := b.(*smap)
		if (ma == nil) != (mb == nil) || ma.len() != mb.len() {
			return false
		}
		if ma == mb {
			return true
		}
		key := [2]interface{}{ma, mb}
		if seen[key] {
			return true
		}
		seen[key] = true
		for i, k := range ma.keys {
			vb, ok := mb.lookup(k)
			if !ok || !deepEqual(tt.Elem(), ma.vals[i], vb, seen, depth+1) {
				return false
			}
		}
		return true
	case *types.Interface:
		ia, ib := a.(iface), b.(iface)
		if ia.t == nil || ib.t == nil {
			return ia.t == nil && ib.t == nil
		}
		if !types.Identical(ia.t, ib.t) {
			return false
		}
		return deepEqual(ia.t, ia.v, ib.v, seen, depth+1)
	case *types.Signature:
		fa, oka := a.(*ssa.Function)
		fb, okb := b.(*ssa.Function)
		return oka && okb && fa == nil && fb == nil
	case *types.Chan:
		return a == b
	}
	return false
}

var _ = strings.Contains
