package interp

// Model of package reflect over go/types and the interpreter's heap.

import (
	"go/token"
	"go/types"
)

type opaqueType struct {
	types.Type
	name string
}

func (t *opaqueType) String() string { return t.name }

var reflectTypesPackage = types.NewPackage("reflect", "reflect")

// rtype is the concrete type the interpreter uses to implement reflect.Type.
var rtypeType = makeNamedType("rtype", &opaqueType{nil, "rtype"})

// errorType: engine-created errors (string payload).
var errorType = makeNamedType("error", &opaqueType{nil, "error"})

func makeNamedType(name string, underlying types.Type) *types.Named {
	obj := types.NewTypeName(token.NoPos, reflectTypesPackage, name, nil)
	return types.NewNamed(obj, underlying, nil)
}

func makeReflectType(rt rtype) value {
	return iface{rtypeType, rt}
}

// nativeMethod dispatches interface method calls on engine-implemented dynamic types.
func nativeMethod(recv iface, m *types.Func) (*nativeFn, bool) {
	switch recv.t {
	case rtypeType:
		if f := rtypeMethod(m.Name()); f != nil {
			return f, true
		}
	case errorType:
		if m.Name() == "Error" {
			return &nativeFn{name: "error.Error", fn: func(fr *frame, args []value) value { return args[0].(engineErr).msg }}, true
		}
		if m.Name() == "Unwrap" {
			return &nativeFn{name: "error.Unwrap", fn: func(fr *frame, args []value) value {
				w := args[0].(engineErr).wrapped
				if w == nil {
					return iface{}
				}
				return *w
			}}, true
		}
	}
	return nil, false
}

// engineErr is the payload of errors made by engine stubs (fmt.Errorf, errors.New...).
type engineErr struct {
	msg     value  // string or symstr
	wrapped *iface // for %w
	id      int
}

func nativeEquals(x, y value) (value, bool) {
	switch x := x.(type) {
	case engineErr:
		if ye, ok := y.(engineErr); ok {
			return x.id == ye.id, true
		}
		return false, true
	case *nativeFn:
		return false, true
	}
	return nil, false
}

func errorMessage(it iface) (string, bool) {
	if ee, ok := it.v.(engineErr); ok {
		return describeStr(ee.msg), true
	}
	return "", false
}

func rtypeMethod(name string) *nativeFn { return nil }

func initReflectModel(i *interpreter) {}
