package interp

// Engine-implemented functions ("externals"/intrinsics): the verification API (zzverif),
// library functions that are body-less or use unsafe, and environment stubs.

import (
	"sort"
	"fmt"
	"go/token"
	"go/types"
	"math"
	"strconv"
	"strings"
	"time"
	"unicode"
	"unicode/utf8"

	"golang.org/x/tools/go/ssa"

	"symgo/smt"
)

type externalFn func(fr *frame, args []value) value

// Key strings are from Function.String().
var externals = make(map[string]externalFn)

// prefixExternals are matched by prefix (generic instantiations).
var prefixExternals []struct {
	prefix, suffix string
	fn             externalFn
}

func findExternal(name string, fn *ssa.Function) externalFn {
	if e := externals[name]; e != nil {
		return e
	}
	if strings.Contains(name, "[") {
		for _, pe := range prefixExternals {
			if strings.HasPrefix(name, pe.prefix) && (strings.HasSuffix(name, pe.suffix) || strings.Contains(name, pe.suffix+"[")) {
				return pe.fn
			}
		}
	}
	return nil
}

const vpkg = "github.com/vimeo/dials/zzverif."

func argStr(v value) string {
	if s, ok := v.(string); ok {
		return s
	}
	return describeStr(v)
}

func init() {
	for k, v := range map[string]externalFn{
		vpkg + "Symbolic": func(fr *frame, args []value) value { return true },
		vpkg + "Int64":    func(fr *frame, args []value) value { return newScalarInput(argStr(args[0]), types.Int64) },
		vpkg + "Uint64":   func(fr *frame, args []value) value { return newScalarInput(argStr(args[0]), types.Uint64) },
		vpkg + "Int":      func(fr *frame, args []value) value { return newScalarInput(argStr(args[0]), types.Int) },
		vpkg + "Int32":    func(fr *frame, args []value) value { return newScalarInput(argStr(args[0]), types.Int32) },
		vpkg + "Uint32":   func(fr *frame, args []value) value { return newScalarInput(argStr(args[0]), types.Uint32) },
		vpkg + "Int16":    func(fr *frame, args []value) value { return newScalarInput(argStr(args[0]), types.Int16) },
		vpkg + "Uint16":   func(fr *frame, args []value) value { return newScalarInput(argStr(args[0]), types.Uint16) },
		vpkg + "Int8":     func(fr *frame, args []value) value { return newScalarInput(argStr(args[0]), types.Int8) },
		vpkg + "Byte":     func(fr *frame, args []value) value { return newScalarInput(argStr(args[0]), types.Uint8) },
		vpkg + "Bool":     func(fr *frame, args []value) value { return newScalarInput(argStr(args[0]), types.Bool) },
		vpkg + "Choose": func(fr *frame, args []value) value {
			n := int(asInt64(args[1]))
			in := cur.newInput(argStr(args[0]), "choose")
			c := cur.choose(n, "c")
			in.Conc = []uint64{uint64(c)}
			return c
		},
		vpkg + "Bytes": func(fr *frame, args []value) value {
			n := int(asInt64(args[1]))
			in := cur.newInput(argStr(args[0]), "bytes")
			b := make([]value, n)
			for i := 0; i < n; i++ {
				e := smt.Var(fmt.Sprintf("in_%s_%d_b%d", sanitize(in.Name), len(cur.inputs), i), 8)
				in.E = append(in.E, e)
				b[i] = sym{e, types.Uint8}
			}
			if n == 0 {
				in.Conc = []uint64{}
			}
			return normStr(b)
		},
		vpkg + "And":     func(fr *frame, args []value) value { return vand(args[0], args[1]) },
		vpkg + "Or":      func(fr *frame, args []value) value { return vnot(vand(vnot(args[0]), vnot(args[1]))) },
		vpkg + "Not":     func(fr *frame, args []value) value { return vnot(args[0]) },
		vpkg + "Implies": func(fr *frame, args []value) value { return vnot(vand(args[0], vnot(args[1]))) },
		vpkg + "InRange": func(fr *frame, args []value) value {
			return vand(binop(token.LEQ, types.Typ[types.Uint8], args[1], args[0]), binop(token.LEQ, types.Typ[types.Uint8], args[0], args[2]))
		},
		vpkg + "StrEq": func(fr *frame, args []value) value { return strEq(args[0], args[1]) },
		vpkg + "TempFile": func(fr *frame, args []value) value { return "/zzverif/tempfile" },
		vpkg + "Setenv": func(fr *frame, args []value) value {
			k, ok := args[0].(string)
			if !ok {
				unsupported("Setenv with symbolic name")
			}
			if cur.env == nil {
				cur.env = map[string]value{}
			}
			cur.env[k] = args[1]
			return nil
		},
		vpkg + "Unsetenv": func(fr *frame, args []value) value {
			delete(cur.env, args[0].(string))
			return nil
		},
		"os.LookupEnv": func(fr *frame, args []value) value {
			k, ok := args[0].(string)
			if !ok {
				unsupported("os.LookupEnv with symbolic name")
			}
			if cur != nil {
				if v, ok := cur.env[k]; ok {
					return tuple{v, true}
				}
			}
			return tuple{"", false}
		},
		// package time's initialiser asks for a debug setting that only its timer code reads
		"internal/godebug.New": func(fr *frame, args []value) value { return (*value)(nil) },
		"time.runtimeNano": func(fr *frame, args []value) value { return int64(1) },
		"os.Environ": func(fr *frame, args []value) value {
			// "key=value" for every variable of the modelled environment, in a fixed order;
			// values may have symbolic bytes
			var keys []string
			if cur != nil {
				for k := range cur.env {
					keys = append(keys, k)
				}
			}
			sort.Strings(keys)
			out := make([]value, 0, len(keys))
			for _, k := range keys {
				b := append([]value{}, strBytes(k+"=")...)
				b = append(b, strBytes(cur.env[k])...)
				out = append(out, normStr(b))
			}
			return out
		},
		"os.Getenv": func(fr *frame, args []value) value {
			k, _ := args[0].(string)
			if cur != nil {
				if v, ok := cur.env[k]; ok {
					return v
				}
			}
			return ""
		},
		vpkg + "Assume": func(fr *frame, args []value) value { cur.assume(args[0]); return nil },
		vpkg + "Assert": func(fr *frame, args []value) value {
			cur.assertCond(args[0], argStr(args[1]), "", nil)
			return nil
		},
		vpkg + "AssertUnlessKnown": func(fr *frame, args []value) value {
			cur.assertCond(args[0], argStr(args[1]), argStr(args[2]), args[3])
			return nil
		},
		vpkg + "Fail": func(fr *frame, args []value) value {
			cur.assertCond(false, argStr(args[0]), "", nil)
			return nil
		},
		vpkg + "Reached": func(fr *frame, args []value) value { cur.reached[argStr(args[0])] = true; return nil },
		vpkg + "Observe": func(fr *frame, args []value) value {
			cur.observed[argStr(args[0])] = toString(args[1])
			return nil
		},
		vpkg + "Event": func(fr *frame, args []value) value {
			if cur.sched != nil && cur.sched.running != nil {
				cur.sched.syncPoint(&pendingOp{kind: opEvent, obj: ghostObj(), eventTag: argStr(args[0]), site: argStr(args[0])})
			}
			return nil
		},
		vpkg + "Yield": func(fr *frame, args []value) value {
			if cur.sched != nil && cur.sched.running != nil {
				cur.sched.syncPoint(&pendingOp{kind: opEvent, obj: ghostObj(), eventTag: "yield", site: argStr(args[0])})
			}
			return nil
		},
		vpkg + "Daemon": func(fr *frame, args []value) value {
			if cur.sched != nil && cur.sched.running != nil {
				cur.sched.running.daemon = true
			}
			return nil
		},
		vpkg + "Quiesce": func(fr *frame, args []value) value {
			// wait until no other goroutine can make progress
			if cur.sched != nil && cur.sched.running != nil {
				cur.sched.syncPoint(&pendingOp{kind: opQuiesce, obj: ghostObj(), site: "quiesce"})
			}
			return nil
		},
		vpkg + "NumParked": func(fr *frame, args []value) value {
			n := 0
			if cur.sched != nil {
				for _, g := range cur.sched.gs {
					if !g.done && g != cur.sched.running && !g.daemon {
						n++
					}
				}
			}
			return n
		},
		vpkg + "ParkedDesc": func(fr *frame, args []value) value {
			if cur.sched == nil {
				return ""
			}
			return cur.sched.describeParked()
		},

		// ---- runtime / misc
		"runtime.Gosched":     func(fr *frame, args []value) value { return nil },
		"runtime.GC":          func(fr *frame, args []value) value { return nil },
		"runtime.KeepAlive":   func(fr *frame, args []value) value { return nil },
		"runtime.SetFinalizer": func(fr *frame, args []value) value { return nil },
		"runtime.GOMAXPROCS":  func(fr *frame, args []value) value { return 1 },
		"runtime.NumCPU":      func(fr *frame, args []value) value { return 1 },
		"internal/abi.NoEscape": func(fr *frame, args []value) value { return args[0] },
		"internal/abi.Escape":   func(fr *frame, args []value) value { return args[0] },
		"internal/race.Enabled": func(fr *frame, args []value) value { return false },
		"internal/bytealg.MakeNoZero": func(fr *frame, args []value) value {
			n := asInt64(args[0])
			s := make([]value, n)
			for i := range s {
				s[i] = uint8(0)
			}
			return s
		},
		"internal/bytealg.IndexByteString": extIndexByteString,
		"internal/bytealg.IndexByte": func(fr *frame, args []value) value {
			return extIndexByteString(fr, []value{normStr(args[0].([]value)), args[1]})
		},
		"internal/bytealg.CountString": func(fr *frame, args []value) value {
			b := strBytes(args[0])
			n := 0
			for _, c := range b {
				if truth(byteEq(c, args[1])) {
					n++
				}
			}
			return n
		},
		"internal/bytealg.IndexString": func(fr *frame, args []value) value {
			a, bok := args[0].(string)
			b, ok2 := args[1].(string)
			if bok && ok2 {
				return strings.Index(a, b)
			}
			ab, bb := strBytes(args[0]), strBytes(args[1])
			for i := 0; i+len(bb) <= len(ab); i++ {
				if truth(strEq(normStr(ab[i:i+len(bb)]), args[1])) {
					return i
				}
			}
			return -1
		},
		"internal/bytealg.Equal": func(fr *frame, args []value) value {
			return strEq(normStr(args[0].([]value)), normStr(args[1].([]value)))
		},
		"internal/stringslite.Index": func(fr *frame, args []value) value {
			return externals["internal/bytealg.IndexString"](fr, args)
		},
		"internal/stringslite.IndexByte": extIndexByteString,
		"internal/stringslite.HasPrefix": func(fr *frame, args []value) value {
			ab, bb := strBytes(args[0]), strBytes(args[1])
			if len(ab) < len(bb) {
				return false
			}
			return strEq(normStr(ab[:len(bb):len(bb)]), args[1])
		},
		"internal/stringslite.HasSuffix": func(fr *frame, args []value) value {
			ab, bb := strBytes(args[0]), strBytes(args[1])
			if len(ab) < len(bb) {
				return false
			}
			return strEq(normStr(ab[len(ab)-len(bb):]), args[1])
		},
		"internal/stringslite.Clone": func(fr *frame, args []value) value { return args[0] },
		"strings.Clone":              func(fr *frame, args []value) value { return args[0] },
		"strings.Compare": func(fr *frame, args []value) value {
			a, ok1 := args[0].(string)
			b, ok2 := args[1].(string)
			if !ok1 || !ok2 {
				panic(fallthroughToSSA{})
			}
			return strings.Compare(a, b)
		},
		"strconv.ParseFloat": func(fr *frame, args []value) value {
			s, ok := args[0].(string)
			if !ok {
				unsupported("strconv.ParseFloat on a symbolic string")
			}
			v, err := strconv.ParseFloat(s, int(asInt64(args[1])))
			return tuple{v, nativeNumErr("ParseFloat", err)}
		},
		"strconv.ParseComplex": func(fr *frame, args []value) value {
			s, ok := args[0].(string)
			if !ok {
				unsupported("strconv.ParseComplex on a symbolic string")
			}
			v, err := strconv.ParseComplex(s, int(asInt64(args[1])))
			return tuple{v, nativeNumErr("ParseComplex", err)}
		},
		"strconv.ParseBool": func(fr *frame, args []value) value {
			s, ok := args[0].(string)
			if !ok {
				panic(fallthroughToSSA{})
			}
			v, err := strconv.ParseBool(s)
			return tuple{v, nativeNumErr("ParseBool", err)}
		},
		"time.ParseDuration": func(fr *frame, args []value) value {
			s, ok := args[0].(string)
			if !ok {
				unsupported("time.ParseDuration on a symbolic string")
			}
			v, err := time.ParseDuration(s)
			if err != nil {
				return tuple{int64(0), newEngineErr(err.Error(), nil)}
			}
			return tuple{int64(v), iface{}}
		},
		"(time.Duration).String": func(fr *frame, args []value) value {
			return time.Duration(concInt(args[0])).String()
		},
		// usage text is output formatting, never the subject
		"(*flag.FlagSet).usage":         func(fr *frame, args []value) value { return nil },
		"(*flag.FlagSet).PrintDefaults": func(fr *frame, args []value) value { return nil },
		"go/ast.IsExported": func(fr *frame, args []value) value {
			s, ok := args[0].(string)
			if !ok {
				unsupported("ast.IsExported on symbolic name")
			}
			return exported(s)
		},
		"unsafe.String": func(fr *frame, args []value) value {
			return externals["unsafe.String"](fr, args)
		},
		"math.Float64bits":     func(fr *frame, args []value) value { return math.Float64bits(args[0].(float64)) },
		"math.Float64frombits": func(fr *frame, args []value) value { return math.Float64frombits(args[0].(uint64)) },
		"math.Float32bits":     func(fr *frame, args []value) value { return math.Float32bits(args[0].(float32)) },
		"math.Float32frombits": func(fr *frame, args []value) value { return math.Float32frombits(args[0].(uint32)) },
		"math.IsNaN":           func(fr *frame, args []value) value { return math.IsNaN(args[0].(float64)) },
		"math.IsInf":           func(fr *frame, args []value) value { return math.IsInf(args[0].(float64), int(asInt64(args[1]))) },
		"math.Inf":             func(fr *frame, args []value) value { return math.Inf(int(asInt64(args[0]))) },
		"math.NaN":             func(fr *frame, args []value) value { return math.NaN() },
		"math.Abs":             func(fr *frame, args []value) value { return math.Abs(args[0].(float64)) },

		// ---- strings.Builder (uses unsafe)
		"(*strings.Builder).WriteString": func(fr *frame, args []value) value {
			sbAppend(args[0], strBytes(args[1]))
			return tuple{strLen(args[1]), iface{}}
		},
		"(*strings.Builder).WriteByte": func(fr *frame, args []value) value {
			sbAppend(args[0], []value{args[1]})
			return iface{}
		},
		"(*strings.Builder).WriteRune": func(fr *frame, args []value) value {
			r := args[1]
			if sr, ok := r.(sym); ok {
				bs := strBytes(symRuneToString(sr))
				sbAppend(args[0], bs)
				return tuple{len(bs), iface{}}
			}
			var buf [4]byte
			n := utf8.EncodeRune(buf[:], r.(int32))
			sbAppend(args[0], strBytes(string(buf[:n])))
			return tuple{n, iface{}}
		},
		"(*strings.Builder).Write": func(fr *frame, args []value) value {
			sbAppend(args[0], args[1].([]value))
			return tuple{len(args[1].([]value)), iface{}}
		},
		"(*strings.Builder).String": func(fr *frame, args []value) value { return normStr(append([]value(nil), sbGet(args[0])...)) },
		"(*strings.Builder).Len":    func(fr *frame, args []value) value { return len(sbGet(args[0])) },
		"(*strings.Builder).Cap":    func(fr *frame, args []value) value { return cap(sbGet(args[0])) },
		"(*strings.Builder).Grow":   func(fr *frame, args []value) value { return nil },
		"(*strings.Builder).Reset": func(fr *frame, args []value) value {
			sbSet(args[0], nil)
			return nil
		},

		// ---- unicode predicates: native for concrete runes; Latin-1 table + uninterpreted above
		"unicode.IsUpper":  unicodePred("IsUpper", unicode.IsUpper),
		"unicode.IsLower":  unicodePred("IsLower", unicode.IsLower),
		"unicode.IsLetter": unicodePred("IsLetter", unicode.IsLetter),
		"unicode.IsDigit":  unicodePred("IsDigit", unicode.IsDigit),
		"unicode.IsNumber": unicodePred("IsNumber", unicode.IsNumber),
		"unicode.IsPrint":  unicodePred("IsPrint", unicode.IsPrint),
		"unicode.IsSpace":  unicodePred("IsSpace", unicode.IsSpace),
		"unicode.IsPunct":  unicodePred("IsPunct", unicode.IsPunct),
		"unicode.IsGraphic": unicodePred("IsGraphic", unicode.IsGraphic),
		"unicode.IsControl": unicodePred("IsControl", unicode.IsControl),
		"unicode.IsTitle":  unicodePred("IsTitle", unicode.IsTitle),
		"unicode.IsSymbol": unicodePred("IsSymbol", unicode.IsSymbol),
		"unicode.IsMark":   unicodePred("IsMark", unicode.IsMark),
		"unicode.ToUpper":  unicodeMap("ToUpper", unicode.ToUpper),
		"unicode.ToLower":  unicodeMap("ToLower", unicode.ToLower),
		"unicode.ToTitle":  unicodeMap("ToTitle", unicode.ToTitle),
		"unicode.SimpleFold": unicodeMap("SimpleFold", unicode.SimpleFold),

		// ---- strconv: native on concrete strings, contract stubs on symbolic ones
		"strconv.Itoa":        func(fr *frame, args []value) value { return strconv.Itoa(int(concInt(args[0]))) },
		"strconv.FormatInt":   func(fr *frame, args []value) value { return strconv.FormatInt(concInt(args[0]), int(asInt64(args[1]))) },
		"strconv.FormatUint":  func(fr *frame, args []value) value { return strconv.FormatUint(asUint64(args[0]), int(asInt64(args[1]))) },
		"strconv.FormatBool":  func(fr *frame, args []value) value { return strconv.FormatBool(truth(args[0])) },
		"strconv.FormatFloat": func(fr *frame, args []value) value {
			return strconv.FormatFloat(args[0].(float64), args[1].(byte), int(asInt64(args[2])), int(asInt64(args[3])))
		},
		"strconv.Quote": func(fr *frame, args []value) value {
			if s, ok := args[0].(string); ok {
				return strconv.Quote(s)
			}
			return nil
		},
	} {
		externals[k] = v
	}
	delete(externals, "unsafe.String")
	delete(externals, "strconv.Quote") // interpreted from source (handles symbolic bytes)
}

func newScalarInput(name string, k types.BasicKind) value {
	in := cur.newInput(name, strings.ToLower(types.Typ[k].Name()))
	e := smt.Var(fmt.Sprintf("in_%s_%d", sanitize(name), len(cur.inputs)), kindWidth(k))
	in.E = []*smt.Expr{e}
	return sym{e, k}
}

var theGhost *syncObj

func ghostObj() *syncObj {
	if theGhost == nil {
		theGhost = &syncObj{id: 0}
	}
	return theGhost
}

func extIndexByteString(fr *frame, args []value) value {
	b := strBytes(args[0])
	for i, c := range b {
		if truth(byteEq(c, args[1])) {
			return i
		}
	}
	return -1
}

// byteEq compares a string element with a byte; an opaque literal never equals a single byte
// that is a separator or white space (contract of litseg).
func byteEq(c, b value) value {
	if _, ok := c.(litseg); ok {
		return false
	}
	return equalsV(nil, c, b)
}

// strings.Builder is struct{addr *Builder; buf []byte}; we keep the bytes in field 1.
func sbGet(recv value) []value {
	st := (*recv.(*value)).(structure)
	b, _ := st[1].([]value)
	return b
}

func sbSet(recv value, b []value) {
	st := (*recv.(*value)).(structure)
	theInterp.logStore(&st[1])
	st[1] = b
}

func sbAppend(recv value, bs []value) {
	cur0 := sbGet(recv)
	nb := make([]value, 0, len(cur0)+len(bs))
	nb = append(nb, cur0...)
	nb = append(nb, bs...)
	sbSet(recv, nb)
}

var latin1Tables = map[string][]uint64{}

func unicodePred(name string, f func(rune) bool) externalFn {
	return func(fr *frame, args []value) value {
		switch r := args[0].(type) {
		case int32:
			return f(r)
		case sym:
			tbl := latin1Tables[name]
			if tbl == nil {
				tbl = make([]uint64, 256)
				for i := range tbl {
					if f(rune(i)) {
						tbl[i] = 1
					}
				}
				latin1Tables[name] = tbl
			}
			lo := smt.Eq(smt.TableLookup("uni_"+name, 1, tbl, smt.Extract(7, 0, r.e)), smt.Const(1, 1))
			hi := smt.Eq(smt.App("uf_"+name, 1, r.e), smt.Const(1, 1))
			if name == "IsSpace" {
				// the white-space runes beyond Latin-1 are few: exact
				hi = smt.Bool(false)
				for _, rg := range [][2]uint64{{0x1680, 0x1680}, {0x2000, 0x200a}, {0x2028, 0x2029}, {0x202f, 0x202f}, {0x205f, 0x205f}, {0x3000, 0x3000}} {
					hi = smt.Or(hi, smt.And(smt.Cmp("bvuge", r.e, smt.Const(32, rg[0])), smt.Cmp("bvule", r.e, smt.Const(32, rg[1]))))
				}
			}
			// what decoding invalid UTF-8 yields is classified as the real function does
			hi = smt.Ite(smt.Eq(r.e, smt.Const(32, uint64(utf8.RuneError))), smt.Bool(f(utf8.RuneError)), hi)
			isLatin := smt.Cmp("bvult", r.e, smt.Const(32, 256))
			return mkSym(smt.Ite(isLatin, lo, hi), types.Bool)
		}
		panic(fmt.Sprintf("unicode.%s on %T", name, args[0]))
	}
}

func unicodeMap(name string, f func(rune) rune) externalFn {
	return func(fr *frame, args []value) value {
		switch r := args[0].(type) {
		case int32:
			return f(r)
		case sym:
			tbl := latin1Tables[name]
			if tbl == nil {
				tbl = make([]uint64, 256)
				for i := range tbl {
					tbl[i] = uint64(uint32(f(rune(i))))
				}
				latin1Tables[name] = tbl
			}
			lo := smt.TableLookup("uni_"+name, 32, tbl, smt.Extract(7, 0, r.e))
			hi := smt.App("uf_"+name, 32, r.e)
			isLatin := smt.Cmp("bvult", r.e, smt.Const(32, 256))
			return mkSym(smt.Ite(isLatin, lo, hi), types.Int32)
		}
		panic(fmt.Sprintf("unicode.%s on %T", name, args[0]))
	}
}

// decodeRuneSym decodes the first rune of s (string or symstr) by calling the interpreted
// utf8.DecodeRuneInString; returns the rune value (int32 or sym) and its concrete size.
func decodeRuneSym(s value) (value, int) {
	if cs, ok := s.(string); ok {
		r, n := utf8.DecodeRuneInString(cs)
		return r, n
	}
	b := strBytes(s)
	// ASCII fast path
	if sb, ok := b[0].(sym); ok {
		if truth(mkSym(smt.Cmp("bvult", sb.e, smt.Const(8, 0x80)), types.Bool)) {
			return mkSym(smt.ZeroExt(24, sb.e), types.Int32), 1
		}
	} else if b[0].(uint8) < 0x80 {
		return int32(b[0].(uint8)), 1
	}
	pkg := theInterp.prog.ImportedPackage("unicode/utf8")
	if pkg == nil || pkg.Func("DecodeRuneInString") == nil || pkg.Func("DecodeRuneInString").Blocks == nil {
		unsupported("range over symbolic non-ASCII string needs unicode/utf8 loaded from source")
	}
	res := callSSA(theInterp, nil, 0, pkg.Func("DecodeRuneInString"), []value{s}, nil).(tuple)
	return res[0], int(asInt64(res[1]))
}
