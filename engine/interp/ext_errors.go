package interp

// errors / fmt stubs: formatting is never the subject of a property, so formatted text is
// opaque; error identity, wrapping chains (%w) and nil-ness are preserved.

import (
	"fmt"
	"go/types"
	"strings"
)

var errCounter int

func newEngineErr(msg value, wrapped *iface) value {
	errCounter++
	return iface{t: errorType, v: engineErr{msg: msg, wrapped: wrapped, id: errCounter}}
}

func init() {
	externals["errors.New"] = func(fr *frame, args []value) value { return newEngineErr(args[0], nil) }
	externals["fmt.Errorf"] = func(fr *frame, args []value) value {
		format := argStr(args[0])
		var wrapped *iface
		if strings.Contains(format, "%w") {
			// find the operand matching %w: count verbs before it
			idx := verbIndex(format, "%w")
			if vs, ok := args[1].([]value); ok && idx >= 0 && idx < len(vs) {
				if it, ok := vs[idx].(iface); ok && it.t != nil {
					w := it
					wrapped = &w
				}
			}
		}
		return newEngineErr(opaqueFormat(format, args[1]), wrapped)
	}
	sprintf := func(fr *frame, args []value) value { return opaqueFormat(argStr(args[0]), args[1]) }
	externals["fmt.Sprintf"] = sprintf
	externals["fmt.Sprint"] = func(fr *frame, args []value) value { return opaqueFormat("", args[0]) }
	externals["fmt.Sprintln"] = func(fr *frame, args []value) value { return opaqueFormat("", args[0]) }
	externals["fmt.Println"] = func(fr *frame, args []value) value { return tuple{0, iface{}} }
	externals["fmt.Printf"] = func(fr *frame, args []value) value { return tuple{0, iface{}} }
	externals["fmt.Fprintf"] = func(fr *frame, args []value) value { return tuple{0, iface{}} }
	externals["fmt.Fprintln"] = func(fr *frame, args []value) value { return tuple{0, iface{}} }
	externals["fmt.Fprint"] = func(fr *frame, args []value) value { return tuple{0, iface{}} }
	externals["errors.Unwrap"] = func(fr *frame, args []value) value { return unwrapErr(fr, args[0].(iface)) }
	externals["errors.Is"] = func(fr *frame, args []value) value {
		err, target := args[0].(iface), args[1].(iface)
		if target.t == nil {
			return err.t == nil
		}
		for depth := 0; err.t != nil && depth < 50; depth++ {
			if sameType(err.t, target.t) && errComparable(err.t) {
				if truth(equalsV(err.t, err.v, target.v)) {
					return true
				}
			}
			err = unwrapErr(fr, err)
		}
		return false
	}
	externals["errors.As"] = func(fr *frame, args []value) value {
		err := args[0].(iface)
		tgt := args[1].(iface)
		if tgt.t == nil {
			panic(targetPanic{iface{t: nil, v: "errors: target cannot be nil"}})
		}
		pt, ok := tgt.t.Underlying().(*types.Pointer)
		if !ok {
			panic(targetPanic{iface{t: nil, v: "errors: target must be a non-nil pointer"}})
		}
		want := pt.Elem()
		cell := tgt.v.(*value)
		for depth := 0; err.t != nil && depth < 50; depth++ {
			if it, isIface := want.Underlying().(*types.Interface); isIface {
				if err.t != errorType && err.t != rtypeType && types.Implements(err.t, it) {
					store(want, cell, err)
					return true
				}
			} else if types.Identical(err.t, want) {
				store(want, cell, err.v)
				return true
			}
			err = unwrapErr(fr, err)
		}
		return false
	}
}

func errComparable(t types.Type) bool {
	if t == errorType {
		return true
	}
	return types.Comparable(t)
}

type isFound struct{}

func verbIndex(format, verb string) int {
	n := 0
	for i := 0; i+1 < len(format); i++ {
		if format[i] != '%' {
			continue
		}
		if format[i+1] == '%' {
			i++
			continue
		}
		// skip flags/width/indexes
		j := i + 1
		for j < len(format) && strings.ContainsRune("+-# 0123456789.[]*", rune(format[j])) {
			j++
		}
		if j < len(format) {
			if format[i:i+1]+string(format[j]) == verb {
				return n
			}
			n++
			i = j
		}
	}
	return -1
}

// opaqueFormat formats like fmt.Sprintf when every operand has a concrete printable form
// (strings, numbers, bools, errors, Stringers, reflect.Types); anything else (symbolic values,
// aggregates) is rendered as a placeholder. Formatting is never the subject of a property, but
// dials builds struct tags and names with Sprintf, so concrete operands must format exactly.
func opaqueFormat(format string, args value) value {
	vs, _ := args.([]value)
	nat := make([]interface{}, len(vs))
	for i, v := range vs {
		nat[i] = nativeArg(v)
	}
	if format == "" {
		return fmt.Sprint(nat...)
	}
	f := strings.ReplaceAll(format, "%w", "%v")
	return fmt.Sprintf(f, nat...)
}

type placeholder string

func (p placeholder) String() string { return string(p) }
func (p placeholder) Format(f fmt.State, c rune) { f.Write([]byte(string(p))) }

func nativeArg(v value) interface{} {
	it, ok := v.(iface)
	if !ok {
		return placeholder("?")
	}
	if it.t == nil {
		return nil
	}
	// errors and Stringers: use their own text
	if ee, ok := it.v.(engineErr); ok {
		return fmt.Errorf("%s", describeStr(ee.msg))
	}
	if rt, ok := it.v.(rtype); ok {
		return placeholder(typeString(rt.t))
	}
	if it.t != errorType && it.t != rtypeType {
		for _, mname := range []string{"Error", "String"} {
			ms := theInterp.prog.MethodSets.MethodSet(it.t)
			for k := 0; k < ms.Len(); k++ {
				sel := ms.At(k)
				if sel.Obj().Name() != mname {
					continue
				}
				sig, _ := sel.Type().(*types.Signature)
				if sig == nil || sig.Params().Len() != 0 || sig.Results().Len() != 1 {
					continue
				}
				fn := theInterp.prog.MethodValue(sel)
				if fn == nil {
					continue
				}
				var res value
				okc := false
				func() {
					defer func() {
						if r := recover(); r != nil {
							if enginePanic(r) {
								panic(r)
							}
						}
					}()
					res = call(theInterp, nil, 0, fn, []value{it.v})
					okc = true
				}()
				if okc {
					if s, ok := res.(string); ok {
						if mname == "Error" {
							return fmt.Errorf("%s", s)
						}
						return placeholder(s)
					}
					return placeholder(describeStr(res))
				}
			}
		}
	}
	switch x := it.v.(type) {
	case string:
		return x
	case bool, int, int8, int16, int32, int64, uint, uint8, uint16, uint32, uint64, uintptr, float32, float64, complex64, complex128:
		return x
	case symstr:
		return placeholder("<symbolic string>")
	case sym:
		return placeholder("<symbolic>")
	case []value:
		// slices of basic values print like Go slices
		out := make([]interface{}, 0, len(x))
		elemT := it.t
		if st, ok := it.t.Underlying().(*types.Slice); ok {
			elemT = st.Elem()
		}
		for _, e := range x {
			out = append(out, nativeArg(iface{t: elemT, v: e}))
		}
		return out
	case *value:
		if x == nil {
			return placeholder("<nil>")
		}
		return placeholder("0xc000000000")
	}
	return placeholder("<" + typeString(it.t) + ">")
}

// unwrapErr calls err.Unwrap() if the dynamic type has one.
func unwrapErr(fr *frame, err iface) iface {
	if err.t == nil {
		return iface{}
	}
	if ee, ok := err.v.(engineErr); ok {
		if ee.wrapped == nil {
			return iface{}
		}
		return *ee.wrapped
	}
	ms := theInterp.prog.MethodSets.MethodSet(err.t)
	for k := 0; k < ms.Len(); k++ {
		sel := ms.At(k)
		if sel.Obj().Name() == "Unwrap" {
			fn := theInterp.prog.MethodValue(sel)
			if fn == nil {
				return iface{}
			}
			res := call(theInterp, fr, 0, fn, []value{err.v})
			if it, ok := res.(iface); ok {
				return it
			}
			return iface{}
		}
	}
	return iface{}
}

var _ = fmt.Sprint
