package interp

// smap: insertion-ordered association map supporting symbolic keys.
// (Replaces the two map representations of the original interpreter.)

import (
	"go/types"
)

type smap struct {
	kt   types.Type
	keys []value
	vals []value
	idx  map[value]int // fast index for concrete, natively comparable keys
	nsym int           // number of keys that are not fast-indexable
	epoch int          // path epoch in which the map was created or first logged
}

func makeMap(kt types.Type, reserve int64) value {
	return &smap{kt: kt, idx: map[value]int{}}
}

// fastKey reports whether k can be used as a native Go map key with the same equality.
func fastKey(k value) bool {
	switch k.(type) {
	case bool, int, int8, int16, int32, int64, uint, uint8, uint16, uint32, uint64, uintptr,
		float32, float64, complex64, complex128, string, *value, *mchan, *syncObj, *smap:
		return true
	}
	return false
}

func (m *smap) len() int {
	if m == nil {
		return 0
	}
	return len(m.keys)
}

// find returns the index of key k or -1 (may fork on symbolic equality).
func (m *smap) find(k value) int {
	if m == nil {
		return -1
	}
	if fastKey(k) && m.nsym == 0 {
		if i, ok := m.idx[k]; ok {
			return i
		}
		return -1
	}
	for i, ki := range m.keys {
		if truth(equalsV(m.kt, k, ki)) {
			return i
		}
	}
	return -1
}

func (m *smap) lookup(k value) (value, bool) {
	i := m.find(k)
	if i < 0 {
		return nil, false
	}
	return m.vals[i], true
}

func (m *smap) insert(k, v value) {
	if m == nil {
		panic(runtimeError("assignment to entry in nil map"))
	}
	i := m.find(k)
	if i >= 0 {
		m.vals[i] = v
		return
	}
	m.keys = append(m.keys, k)
	m.vals = append(m.vals, v)
	if fastKey(k) {
		m.idx[k] = len(m.keys) - 1
	} else {
		m.nsym++
	}
}

func (m *smap) delete(k value) {
	if m == nil {
		return
	}
	i := m.find(k)
	if i < 0 {
		return
	}
	if !fastKey(m.keys[i]) {
		m.nsym--
	}
	m.keys = append(m.keys[:i:i], m.keys[i+1:]...)
	m.vals = append(m.vals[:i:i], m.vals[i+1:]...)
	m.idx = map[value]int{}
	for j, kj := range m.keys {
		if fastKey(kj) {
			m.idx[kj] = j
		}
	}
}

type smapIter struct {
	m    *smap
	keys []value
	i    int
}

func (it *smapIter) next() tuple {
	for it.i < len(it.keys) {
		k := it.keys[it.i]
		it.i++
		// skip entries deleted during iteration
		var j int = -1
		if fastKey(k) && it.m.nsym == 0 {
			if jj, ok := it.m.idx[k]; ok {
				j = jj
			}
		} else {
			for jj, kj := range it.m.keys {
				if sameKeyIdentity(k, kj) {
					j = jj
					break
				}
			}
		}
		if j < 0 {
			continue
		}
		return tuple{true, k, it.m.vals[j]}
	}
	return tuple{false, nil, nil}
}

// sameKeyIdentity is a cheap structural identity used only to re-find snapshot keys.
func sameKeyIdentity(a, b value) bool {
	defer func() { recover() }()
	switch a := a.(type) {
	case symstr:
		if bs, ok := b.(symstr); ok {
			return len(a.b) == len(bs.b) && (len(a.b) == 0 || &a.b[0] == &bs.b[0])
		}
		return false
	case structure:
		if bs, ok := b.(structure); ok {
			return len(a) == len(bs) && (len(a) == 0 || &a[0] == &bs[0])
		}
		return false
	case array:
		if bs, ok := b.(array); ok {
			return len(a) == len(bs) && (len(a) == 0 || &a[0] == &bs[0])
		}
		return false
	}
	return a == b
}
