package interp

import (
	"fmt"
	"go/token"
	"go/types"
	"os"
	"runtime/debug"
	"sort"
	"strings"

	"golang.org/x/tools/go/ssa"

	"symgo/smt"
)

// Engine executes harness functions path by path.
type Engine struct {
	i        *interpreter
	InitErrs []string
}

// Options bound one path execution.
type Options struct {
	MaxSteps   int64
	LoopCap    int
	SchedSteps int
	Trace      bool
}

// New allocates global storage and runs the package initialisers (concretely, once).
func New(prog *ssa.Program, sizes types.Sizes, stubs map[string]*ssa.Function, roots []*ssa.Package) *Engine {
	i := &interpreter{
		prog:    prog,
		globals: make(map[*ssa.Global]*value),
		sizes:   sizes,
		stubs:   stubs,
	}
	theInterp = i
	if rp := prog.ImportedPackage("runtime"); rp != nil && rp.Type("errorString") != nil {
		i.runtimeErrorString = rp.Type("errorString").Object().Type()
	} else {
		i.runtimeErrorString = makeNamedType("runtimeErrorString", types.Typ[types.String])
	}
	for _, pkg := range prog.AllPackages() {
		for _, m := range pkg.Members {
			if g, ok := m.(*ssa.Global); ok {
				cell := zero(mustDeref(g.Type()))
				i.globals[g] = &cell
			}
		}
	}
	e := &Engine{i: i}
	initReflectModel(i)
	if osp := prog.ImportedPackage("os"); osp != nil {
		if g := osp.Var("Args"); g != nil {
			*i.globals[g] = []value{"symgo"}
		}
	}
	// error-typed globals of packages known only from export data (context.Canceled, io.EOF,
	// os.ErrNotExist ...) get distinct sentinel values, since their initialisers are not run
	errT := types.Universe.Lookup("error").Type()
	for _, pkg := range prog.AllPackages() {
		if f := pkg.Func("init"); f != nil && f.Blocks != nil {
			continue
		}
		for name, m := range pkg.Members {
			if g, ok := m.(*ssa.Global); ok && types.Identical(mustDeref(g.Type()), errT) {
				*i.globals[g] = newEngineErr(pkg.Pkg.Path()+"."+name, nil)
			}
		}
	}
	for _, pkg := range roots {
		func() {
			defer func() {
				if r := recover(); r != nil {
					e.InitErrs = append(e.InitErrs, fmt.Sprintf("init %s: %s", pkg.Pkg.Path(), panicString(r)))
					if os.Getenv("SYMGO_DEBUG") != "" {
						fmt.Fprintf(os.Stderr, "init %s: %v\n%s\n", pkg.Pkg.Path(), r, debug.Stack())
					}
				}
			}()
			if f := pkg.Func("init"); f != nil {
				call(i, nil, token.NoPos, f, nil)
			}
		}()
	}
	return e
}

// RunPath executes harness h along the given decision prefix.
func (e *Engine) RunPath(h *ssa.Function, prefix []Decision, solver *smt.Solver, opt Options) (res *PathResult) {
	i := e.i
	p := newPathState(solver, prefix)
	if opt.MaxSteps > 0 {
		p.maxSteps = opt.MaxSteps
	}
	p.loopCap = opt.LoopCap
	cur = p
	resetSyncState()
	i.epoch++
	i.logging = true
	if opt.Trace {
		i.mode |= EnableTracing
	}
	solver.Push()
	sched := newScheduler()
	if opt.SchedSteps > 0 {
		sched.maxSteps = opt.SchedSteps
	}
	p.sched = sched
	res = p.res
	finish := func() {
		res.Decisions = p.taken
		res.Alts = p.alts
		res.Steps = p.steps
		res.SchedSteps = sched.nsteps
		res.Funcs = p.funcs
		for t := range p.reached {
			res.Reached = append(res.Reached, t)
		}
		sort.Strings(res.Reached)
	}
	defer func() {
		r := recover()
		if r != nil {
			switch pe := r.(type) {
			case pathEnd:
				res.Outcome, res.Detail = pe.outcome, pe.detail
			case abortPath:
				res.Outcome, res.Detail = "abort", pe.reason
			default:
				res.Outcome = "abort"
				res.Detail = fmt.Sprintf("engine panic: %v", r)
				if os.Getenv("SYMGO_DEBUG") != "" {
					fmt.Fprintf(os.Stderr, "engine panic: %v\n%s\n", r, debug.Stack())
				}
			}
		}
		if res.Outcome == "unwind" {
			if m, ok := p.model(nil); ok {
				p.addViolation("unwind", res.Detail, "", m)
			}
		}
		if res.Outcome == "panic" {
			if m, ok := p.model(nil); ok {
				p.addViolation("panic", res.Detail, "", m)
				res.Violations[len(res.Violations)-1].Site = p.panicSite
			}
		}
		if res.Outcome == "deadlock" {
			if m, ok := p.model(nil); ok {
				p.addViolation("deadlock", res.Detail, "", m)
			}
		}
		if res.Outcome == "ok" || res.Outcome == "panic" || res.Outcome == "deadlock" {
			func() {
				defer func() { recover() }()
				res.Sample = p.sampleString()
			}()
		}
		finish()
		func() {
			defer func() { recover() }()
			sched.killAll()
		}()
		i.logging = false
		i.rollback()
		for solver.Depth() > 0 {
			solver.Pop()
		}
		cur = nil
		theGhost = nil
	}()

	g0 := sched.spawn("harness", func() {
		call(i, nil, token.NoPos, h, nil)
	})
	g0.isHarnessMain = true
	sched.run()
	// quiescence
	if !g0.done {
		res.Outcome = "deadlock"
		res.Detail = "harness goroutine blocked forever: " + sched.describeParked()
		return
	}
	res.Outcome = "ok"
	return
}

// FuncsEncoded lists the functions with bodies executed (name -> calls) on the last path.
func FuncList(m map[string]int) []string {
	var out []string
	for k := range m {
		out = append(out, k)
	}
	sort.Strings(out)
	return out
}

// InstrCount returns the number of SSA instructions of fn.
func InstrCount(fn *ssa.Function) int {
	n := 0
	for _, b := range fn.Blocks {
		n += len(b.Instrs)
	}
	return n
}

func shortPos(fset *token.FileSet, pos token.Pos) string {
	if pos == token.NoPos {
		return ""
	}
	p := fset.Position(pos)
	f := p.Filename
	if i := strings.LastIndex(f, "/"); i >= 0 {
		f = f[i+1:]
	}
	return fmt.Sprintf("%s:%d", f, p.Line)
}
