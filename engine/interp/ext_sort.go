package interp

// sort / slices intrinsics (the real implementations use generics + unsafe-free code, but loading
// them from source is unnecessary: ordering of concrete keys is all dials needs).

import (
	"sort"
)

func sortStringsInPlace(x []value) {
	if len(x) <= 1 {
		return
	}
	for _, e := range x {
		if _, ok := e.(string); !ok {
			unsupported("sorting symbolic strings")
		}
	}
	sort.SliceStable(x, func(i, j int) bool { return x[i].(string) < x[j].(string) })
}

func sortIntsInPlace(x []value) {
	for _, e := range x {
		if isSym(e) {
			unsupported("sorting symbolic integers")
		}
	}
	sort.SliceStable(x, func(i, j int) bool { return asInt64(x[i]) < asInt64(x[j]) })
}

// sortByLess sorts x in place with an interpreted less(i, j) closure that indexes x itself
// (insertion sort: stable, and only adjacent swaps are needed).
func sortByLess(fr *frame, x []value, less value) {
	for i := 1; i < len(x); i++ {
		for j := i; j > 0; j-- {
			if !truth(call(theInterp, fr, 0, less, []value{j, j - 1})) {
				break
			}
			theInterp.logStore(&x[j])
			theInterp.logStore(&x[j-1])
			x[j], x[j-1] = x[j-1], x[j]
		}
	}
}

func init() {
	externals["sort.Strings"] = func(fr *frame, args []value) value {
		x, _ := args[0].([]value)
		for k := range x {
			theInterp.logStore(&x[k])
		}
		sortStringsInPlace(x)
		return nil
	}
	externals["sort.Ints"] = func(fr *frame, args []value) value {
		x, _ := args[0].([]value)
		for k := range x {
			theInterp.logStore(&x[k])
		}
		sortIntsInPlace(x)
		return nil
	}
	bySlice := func(fr *frame, args []value) value {
		it := args[0].(iface)
		x, _ := it.v.([]value)
		sortByLess(fr, x, args[1])
		return nil
	}
	externals["sort.Slice"] = bySlice
	externals["sort.SliceStable"] = bySlice
	genericSort := func(fr *frame, args []value) value {
		x, _ := args[0].([]value)
		if len(x) == 0 {
			return nil
		}
		for k := range x {
			theInterp.logStore(&x[k])
		}
		if _, ok := x[0].(string); ok {
			sortStringsInPlace(x)
		} else {
			sortIntsInPlace(x)
		}
		return nil
	}
	sortFunc := func(fr *frame, args []value) value {
		x, _ := args[0].([]value)
		cmp := args[1]
		for i := 1; i < len(x); i++ {
			for j := i; j > 0; j-- {
				r := call(theInterp, fr, 0, cmp, []value{x[j], x[j-1]})
				if asInt64(r) >= 0 {
					break
				}
				theInterp.logStore(&x[j])
				theInterp.logStore(&x[j-1])
				x[j], x[j-1] = x[j-1], x[j]
			}
		}
		return nil
	}
	for _, n := range []string{"slices.SortFunc[", "slices.SortStableFunc["} {
		prefixExternals = append(prefixExternals, struct {
			prefix, suffix string
			fn             externalFn
		}{n, "]", sortFunc})
	}
	for _, n := range []string{"slices.Sort[", "slices.SortStable["} {
		prefixExternals = append(prefixExternals, struct {
			prefix, suffix string
			fn             externalFn
		}{n, "]", genericSort})
	}
}
