package interp

import "strings"

func stringsTrimSpace(s string) string { return strings.TrimSpace(s) }
