// Package interp is a symbolic executor for Go SSA, derived from
// golang.org/x/tools/go/ssa/interp (BSD license, The Go Authors).
//
// Differences from the original: scalar values may be SMT terms (sym), strings may have symbolic
// bytes (symstr), branches on symbolic conditions fork (decision tree explored by re-execution),
// goroutines/channels/select/atomics are modelled and scheduled by an exploring scheduler,
// maps are insertion-ordered association lists, reflect is modelled over go/types.
package interp

import (
	"fmt"
	"go/token"
	"go/types"
	"os"
	"runtime"
	"slices"
	"strings"

	"golang.org/x/tools/go/ssa"
)

type continuation int

const (
	kNext continuation = iota
	kReturn
	kJump
)

// Mode is a bitmask of options affecting the interpreter.
type Mode uint

const (
	DisableRecover Mode = 1 << iota // Disable recover() in target programs; show interpreter crash instead.
	EnableTracing                   // Print a trace of all instructions as they are interpreted.
)

type methodSet map[string]*ssa.Function

// State shared between all interpreted goroutines.
type interpreter struct {
	prog               *ssa.Program           // the SSA program
	globals            map[*ssa.Global]*value // addresses of global variables (immutable)
	mode               Mode                   // interpreter options
	reflectPackage     *ssa.Package           // the fake reflect package
	errorMethods       methodSet              // the method set of reflect.error, which implements the error interface.
	rtypeMethods       methodSet              // the method set of rtype, which implements the reflect.Type interface.
	runtimeErrorString types.Type             // the runtime.errorString type
	sizes              types.Sizes            // the effective type-sizing function
	stubs              map[string]*ssa.Function
	undo               []undoEntry
	logging            bool
	epoch              int
	tracedPanic        bool
}

type undoEntry struct {
	addr *value
	old  value
	m    *smap
	keys []value
	vals []value
}

type deferred struct {
	fn    value
	args  []value
	instr *ssa.Defer
	tail  *deferred
}

type frame struct {
	i                *interpreter
	caller           *frame
	fn               *ssa.Function
	block, prevBlock *ssa.BasicBlock
	env              map[ssa.Value]value // dynamic values of SSA variables
	locals           []value
	defers           *deferred
	result           value
	panicking        bool
	panic            interface{}
	phitemps         []value // temporaries for parallel phi assignment
	loopCount        map[*ssa.BasicBlock]int
	depth            int
}

func mustDeref(t types.Type) types.Type {
	if p, ok := t.Underlying().(*types.Pointer); ok {
		return p.Elem()
	}
	panic(fmt.Sprintf("mustDeref: %s is not a pointer", t))
}

func (fr *frame) get(key ssa.Value) value {
	switch key := key.(type) {
	case nil:
		// Hack; simplifies handling of optional attributes
		// such as ssa.Slice.{Low,High}.
		return nil
	case *ssa.Function, *ssa.Builtin:
		return key
	case *ssa.Const:
		return constValue(key)
	case *ssa.Global:
		if r, ok := fr.i.globals[key]; ok {
			return r
		}
	}
	if r, ok := fr.env[key]; ok {
		return r
	}
	panic(fmt.Sprintf("get: no value for %T: %v", key, key.Name()))
}

// enginePanic reports whether a recovered value is an engine-level control transfer that
// target-level defer/recover must not observe.
func enginePanic(r interface{}) bool {
	switch r.(type) {
	case pathEnd, abortPath, goroutineKilled:
		return true
	}
	return false
}

// runDefer runs a deferred call d.
// It always returns normally, but may set or clear fr.panic.
func (fr *frame) runDefer(d *deferred) {
	var ok bool
	defer func() {
		if !ok {
			// Deferred call created a new state of panic.
			r := recover()
			if enginePanic(r) {
				panic(r)
			}
			fr.panicking = true
			fr.panic = r
		}
	}()
	call(fr.i, fr, d.instr.Pos(), d.fn, d.args)
	ok = true
}

// runDefers executes fr's deferred function calls in LIFO order.
func (fr *frame) runDefers() {
	for d := fr.defers; d != nil; d = d.tail {
		fr.runDefer(d)
	}
	fr.defers = nil
	if fr.panicking {
		panic(fr.panic) // new panic, or still panicking
	}
}

// lookupMethod returns the method set for type typ, which may be one
// of the interpreter's fake types.
func lookupMethod(i *interpreter, typ types.Type, meth *types.Func) *ssa.Function {
	switch typ {
	case rtypeType:
		return i.rtypeMethods[meth.Id()]
	case errorType:
		return i.errorMethods[meth.Id()]
	}
	return i.prog.LookupMethod(typ, meth.Pkg(), meth.Name())
}

func (fr *frame) site(pos token.Pos) string {
	if pos == token.NoPos {
		return fr.fn.String()
	}
	p := fr.i.prog.Fset.Position(pos)
	f := p.Filename
	if i := strings.LastIndex(f, "/"); i >= 0 {
		f = f[i+1:]
	}
	return fmt.Sprintf("%s:%d", f, p.Line)
}

// logStore records the old content of a cell before it is overwritten.
func (i *interpreter) logStore(addr *value) {
	if i.logging {
		i.undo = append(i.undo, undoEntry{addr: addr, old: *addr})
	}
}

func (i *interpreter) logMap(m *smap) {
	if i.logging && m != nil && m.epoch != i.epoch {
		i.undo = append(i.undo, undoEntry{m: m, keys: append([]value(nil), m.keys...), vals: append([]value(nil), m.vals...)})
		m.epoch = i.epoch
	}
}

func (i *interpreter) rollback() {
	for k := len(i.undo) - 1; k >= 0; k-- {
		e := i.undo[k]
		if e.m != nil {
			e.m.keys, e.m.vals = e.keys, e.vals
			e.m.idx = map[value]int{}
			e.m.nsym = 0
			for j, kj := range e.m.keys {
				if fastKey(kj) {
					e.m.idx[kj] = j
				} else {
					e.m.nsym++
				}
			}
			e.m.epoch = 0
			continue
		}
		*e.addr = e.old
	}
	i.undo = i.undo[:0]
}

// curFrame is the frame executing most recently (for diagnostics).
var curFrame *frame

var debugPanics = os.Getenv("SYMGO_DEBUG") != ""

// theInterp is the single interpreter of this process.
var theInterp *interpreter

// visitInstr interprets a single ssa.Instruction within the activation
// record frame.  It returns a continuation value indicating where to
// read the next instruction from.
func visitInstr(fr *frame, instr ssa.Instruction) continuation {
	switch instr := instr.(type) {
	case *ssa.DebugRef:
		// no-op

	case *ssa.UnOp:
		fr.env[instr] = unop(instr, fr.get(instr.X))

	case *ssa.BinOp:
		fr.env[instr] = binop(instr.Op, instr.X.Type(), fr.get(instr.X), fr.get(instr.Y))

	case *ssa.Call:
		fn, args := prepareCall(fr, &instr.Call)
		fr.env[instr] = call(fr.i, fr, instr.Pos(), fn, args)

	case *ssa.ChangeInterface:
		fr.env[instr] = fr.get(instr.X)

	case *ssa.ChangeType:
		fr.env[instr] = fr.get(instr.X) // (can't fail)

	case *ssa.Convert:
		fr.env[instr] = conv(instr.Type(), instr.X.Type(), fr.get(instr.X))

	case *ssa.SliceToArrayPointer:
		fr.env[instr] = sliceToArrayPointer(instr.Type(), instr.X.Type(), fr.get(instr.X))

	case *ssa.MakeInterface:
		fr.env[instr] = iface{t: instr.X.Type(), v: fr.get(instr.X)}

	case *ssa.Extract:
		fr.env[instr] = fr.get(instr.Tuple).(tuple)[instr.Index]

	case *ssa.Slice:
		x := fr.get(instr.X)
		if px, ok := x.(*value); ok && px == nil {
			panic(runtimeError("invalid memory address or nil pointer dereference"))
		}
		fr.env[instr] = slice(x, fr.get(instr.Low), fr.get(instr.High), fr.get(instr.Max))

	case *ssa.Return:
		switch len(instr.Results) {
		case 0:
		case 1:
			fr.result = fr.get(instr.Results[0])
		default:
			var res []value
			for _, r := range instr.Results {
				res = append(res, fr.get(r))
			}
			fr.result = tuple(res)
		}
		fr.block = nil
		return kReturn

	case *ssa.RunDefers:
		fr.runDefers()

	case *ssa.Panic:
		panic(targetPanic{fr.get(instr.X)})

	case *ssa.Send:
		chanSend(fr.get(instr.Chan).(*mchan), fr.get(instr.X), fr.site(instr.Pos()))

	case *ssa.Store:
		addr := fr.get(instr.Addr)
		switch a := addr.(type) {
		case *value:
			if a == nil {
				panic(runtimeError("invalid memory address or nil pointer dereference"))
			}
			store(mustDeref(instr.Addr.Type()), a, fr.get(instr.Val))
		case symAddr:
			a.store(fr.get(instr.Val))
		default:
			panic(fmt.Sprintf("store through %T", addr))
		}

	case *ssa.If:
		succ := 1
		if truth(fr.get(instr.Cond)) {
			succ = 0
		}
		fr.prevBlock, fr.block = fr.block, fr.block.Succs[succ]
		return kJump

	case *ssa.Jump:
		fr.prevBlock, fr.block = fr.block, fr.block.Succs[0]
		return kJump

	case *ssa.Defer:
		fn, args := prepareCall(fr, &instr.Call)
		defers := &fr.defers
		if into := fr.get(instr.DeferStack); into != nil {
			defers = into.(**deferred)
		}
		*defers = &deferred{
			fn:    fn,
			args:  args,
			instr: instr,
			tail:  *defers,
		}

	case *ssa.Go:
		fn, args := prepareCall(fr, &instr.Call)
		i := fr.i
		pos := instr.Pos()
		if cur == nil || cur.sched == nil {
			panic(abortPath{"go statement outside a scheduled path"})
		}
		name := fr.site(pos)
		cur.sched.spawn(name, func() {
			runGoroutineBody(i, pos, fn, args)
		})

	case *ssa.MakeChan:
		if cur == nil || cur.sched == nil {
			// channels created during package init: not scheduled, plain object
			fr.env[instr] = &mchan{id: -1, cap: int(asInt64(fr.get(instr.Size))), elem: instr.Type().Underlying().(*types.Chan).Elem()}
		} else {
			c := cur.sched.newChan(int(asInt64(fr.get(instr.Size))), instr.Type().Underlying().(*types.Chan).Elem())
			c.label = fr.site(instr.Pos())
			fr.env[instr] = c
		}

	case *ssa.Alloc:
		var addr *value
		if instr.Heap {
			// new
			addr = new(value)
			fr.env[instr] = addr
		} else {
			// local
			addr = fr.env[instr].(*value)
		}
		*addr = zero(mustDeref(instr.Type()))

	case *ssa.MakeSlice:
		n := asInt64(fr.get(instr.Len))
		c := asInt64(fr.get(instr.Cap))
		if n < 0 || n > 1<<24 {
			panic(runtimeError("makeslice: len out of range"))
		}
		if c < n || c > 1<<24 {
			panic(runtimeError("makeslice: cap out of range"))
		}
		slice := make([]value, c)
		tElt := instr.Type().Underlying().(*types.Slice).Elem()
		for i := range slice {
			slice[i] = zero(tElt)
		}
		fr.env[instr] = slice[:n]

	case *ssa.MakeMap:
		var reserve int64
		if instr.Reserve != nil {
			reserve = asInt64(fr.get(instr.Reserve))
		}
		m := makeMap(instr.Type().Underlying().(*types.Map).Key(), reserve).(*smap)
		m.epoch = fr.i.epoch
		fr.env[instr] = m

	case *ssa.Range:
		fr.env[instr] = rangeIter(fr.get(instr.X), instr.X.Type())

	case *ssa.Next:
		fr.env[instr] = fr.get(instr.Iter).(iter).next()

	case *ssa.FieldAddr:
		x := fr.get(instr.X)
		px, ok := x.(*value)
		if !ok {
			if sa, ok := x.(symAddr); ok {
				px = sa.concrete()
			} else {
				panic(fmt.Sprintf("FieldAddr on %T", x))
			}
		}
		if px == nil {
			panic(runtimeError("invalid memory address or nil pointer dereference"))
		}
		fr.env[instr] = &(*px).(structure)[instr.Field]

	case *ssa.Field:
		fr.env[instr] = fr.get(instr.X).(structure)[instr.Field]

	case *ssa.IndexAddr:
		x := fr.get(instr.X)
		idx := fr.get(instr.Index)
		var backing []value
		switch x := x.(type) {
		case []value:
			backing = x
		case *value: // *array
			if x == nil {
				panic(runtimeError("invalid memory address or nil pointer dereference"))
			}
			backing = (*x).(array)
		default:
			panic(fmt.Sprintf("unexpected x type in IndexAddr: %T", x))
		}
		if si, ok := idx.(sym); ok {
			if sa, ok := makeSymAddr(backing, si); ok {
				fr.env[instr] = sa
				break
			}
		}
		i := asInt64(idx)
		if i < 0 || i >= int64(len(backing)) {
			panic(runtimeError(fmt.Sprintf("index out of range [%d] with length %d", i, len(backing))))
		}
		fr.env[instr] = &backing[i]

	case *ssa.Index:
		x := fr.get(instr.X)
		idx := fr.get(instr.Index)

		switch x := x.(type) {
		case array:
			if si, ok := idx.(sym); ok {
				if sa, ok := makeSymAddr(x, si); ok {
					fr.env[instr] = sa.load()
					break
				}
			}
			i := asInt64(idx)
			if i < 0 || i >= int64(len(x)) {
				panic(runtimeError(fmt.Sprintf("index out of range [%d] with length %d", i, len(x))))
			}
			fr.env[instr] = x[i]
		case string:
			if si, ok := idx.(sym); ok {
				if sa, ok := makeSymAddr(strBytes(x), si); ok {
					fr.env[instr] = sa.load()
					break
				}
			}
			i := asInt64(idx)
			if i < 0 || i >= int64(len(x)) {
				panic(runtimeError(fmt.Sprintf("index out of range [%d] with length %d", i, len(x))))
			}
			fr.env[instr] = x[i]
		case symstr:
			if si, ok := idx.(sym); ok {
				if sa, ok := makeSymAddr(x.b, si); ok {
					fr.env[instr] = sa.load()
					break
				}
			}
			i := asInt64(idx)
			if i < 0 || i >= int64(len(x.b)) {
				panic(runtimeError(fmt.Sprintf("index out of range [%d] with length %d", i, len(x.b))))
			}
			fr.env[instr] = x.b[i]
		default:
			panic(fmt.Sprintf("unexpected x type in Index: %T", x))
		}

	case *ssa.Lookup:
		fr.env[instr] = lookup(instr, fr.get(instr.X), fr.get(instr.Index))

	case *ssa.MapUpdate:
		m := fr.get(instr.Map)
		key := fr.get(instr.Key)
		v := fr.get(instr.Value)
		switch m := m.(type) {
		case *smap:
			if m == nil {
				panic(runtimeError("assignment to entry in nil map"))
			}
			fr.i.logMap(m)
			m.insert(key, v)
		default:
			panic(fmt.Sprintf("illegal map type: %T", m))
		}

	case *ssa.TypeAssert:
		fr.env[instr] = typeAssert(fr.i, instr, fr.get(instr.X).(iface))

	case *ssa.MakeClosure:
		var bindings []value
		for _, binding := range instr.Bindings {
			bindings = append(bindings, fr.get(binding))
		}
		fr.env[instr] = &closure{instr.Fn.(*ssa.Function), bindings}

	case *ssa.Phi:
		panic("unreachable") // phis are processed at block entry

	case *ssa.Select:
		fr.env[instr] = doSelect(fr, instr)

	default:
		panic(fmt.Sprintf("unexpected instruction: %T", instr))
	}

	return kNext
}

// prepareCall determines the function value and argument values for a
// function call in a Call, Go or Defer instruction, performing
// interface method lookup if needed.
func prepareCall(fr *frame, call *ssa.CallCommon) (fn value, args []value) {
	v := fr.get(call.Value)
	if call.Method == nil {
		// Function call.
		fn = v
	} else {
		// Interface method invocation.
		recv := v.(iface)
		if recv.t == nil {
			panic(runtimeError("invalid memory address or nil pointer dereference (method invoked on nil interface)"))
		}
		if nm, ok := nativeMethod(recv, call.Method); ok {
			fn = nm
		} else if f := lookupMethod(fr.i, recv.t, call.Method); f == nil {
			// Unreachable in well-typed programs.
			panic(fmt.Sprintf("method set for dynamic type %v does not contain %s", recv.t, call.Method))
		} else {
			fn = f
		}
		args = append(args, recv.v)
	}
	for _, arg := range call.Args {
		args = append(args, fr.get(arg))
	}
	return
}

// nativeFn is an engine-implemented function value.
type nativeFn struct {
	name string
	fn   func(fr *frame, args []value) value
}

func isNativeFunc(v value) bool {
	_, ok := v.(*nativeFn)
	return ok
}

// call interprets a call to a function (function, builtin or closure)
// fn with arguments args, returning its result.
// callpos is the position of the callsite.
func call(i *interpreter, caller *frame, callpos token.Pos, fn value, args []value) value {
	switch fn := fn.(type) {
	case *ssa.Function:
		if fn == nil {
			panic(runtimeError("invalid memory address or nil pointer dereference (call of nil func)")) // nil of func type
		}
		return callSSA(i, caller, callpos, fn, args, nil)
	case *closure:
		return callSSA(i, caller, callpos, fn.Fn, args, fn.Env)
	case *ssa.Builtin:
		return callBuiltin(caller, callpos, fn, args)
	case *nativeFn:
		return fn.fn(caller, args)
	}
	panic(fmt.Sprintf("cannot call %T", fn))
}

func loc(fset *token.FileSet, pos token.Pos) string {
	if pos == token.NoPos {
		return ""
	}
	return " at " + fset.Position(pos).String()
}

const maxCallDepth = 400

// callSSA interprets a call to function fn with arguments args,
// and lexical environment env, returning its result.
// callpos is the position of the callsite.
func callSSA(i *interpreter, caller *frame, callpos token.Pos, fn *ssa.Function, args []value, env []value) value {
	if i.mode&EnableTracing != 0 {
		fset := fn.Prog.Fset
		fmt.Fprintf(os.Stderr, "Entering %s%s.\n", fn, loc(fset, fn.Pos()))
		suffix := ""
		if caller != nil {
			suffix = ", resuming " + caller.fn.String() + loc(fset, callpos)
		}
		defer fmt.Fprintf(os.Stderr, "Leaving %s%s.\n", fn, suffix)
	}
	fr := &frame{
		i:      i,
		caller: caller, // for panic/recover
		fn:     fn,
	}
	if caller != nil {
		fr.depth = caller.depth + 1
		if fr.depth > maxCallDepth {
			if cur != nil {
				cur.end("unwind", fmt.Sprintf("call depth bound %d exceeded in %s", maxCallDepth, fn))
			}
			panic("call depth exceeded")
		}
	}
	if fn.Parent() == nil {
		name := fn.String()
		if cur != nil {
			if stub := i.stubs[name]; stub != nil && stub != fn && !insideStub(caller, stub) {
				return callSSA(i, caller, callpos, stub, args, nil)
			}
		}
		if ext := findExternal(name, fn); ext != nil {
			if i.mode&EnableTracing != 0 {
				fmt.Fprintln(os.Stderr, "\t(external)")
			}
			if res, ok := tryExternal(ext, fr, args); ok {
				return res
			}
		}
		if fn.Blocks == nil {
			if fn.Synthetic != "" && fn.Name() == "init" {
				return nil // initialiser of a package loaded from export data
			}
			if cur != nil {
				panic(abortPath{"no code for function: " + name})
			}
			panic("no code for function: " + name)
		}
	}
	if fn.Blocks == nil {
		panic(abortPath{"no code for function: " + fn.String()})
	}

	// generic function body?
	if fn.TypeParams().Len() > 0 && len(fn.TypeArgs()) == 0 {
		panic("interp requires ssa.BuilderMode to include InstantiateGenerics to execute generics")
	}
	if cur != nil {
		cur.funcs[fn.String()]++
	}

	fr.env = make(map[ssa.Value]value)
	fr.block = fn.Blocks[0]
	fr.locals = make([]value, len(fn.Locals))
	for i, l := range fn.Locals {
		fr.locals[i] = zero(mustDeref(l.Type()))
		fr.env[l] = &fr.locals[i]
	}
	for i, p := range fn.Params {
		fr.env[p] = args[i]
	}
	for i, fv := range fn.FreeVars {
		fr.env[fv] = env[i]
	}
	for fr.block != nil {
		runFrame(fr)
	}
	// Destroy the locals to avoid accidental use after return.
	for i := range fn.Locals {
		fr.locals[i] = bad{}
	}
	return fr.result
}

// tryExternal runs an engine-implemented function; it may decline (fallthroughToSSA), in which
// case the function's real body is interpreted.
func tryExternal(ext externalFn, fr *frame, args []value) (res value, ok bool) {
	defer func() {
		if r := recover(); r != nil {
			if _, is := r.(fallthroughToSSA); is {
				ok = false
				return
			}
			panic(r)
		}
	}()
	return ext(fr, args), true
}

// insideStub reports whether the call chain is already inside stub (a stub may call the real
// function it replaces).
func insideStub(fr *frame, stub *ssa.Function) bool {
	for f := fr; f != nil; f = f.caller {
		if f.fn == stub {
			return true
		}
	}
	return false
}

// runFrame executes SSA instructions starting at fr.block and
// continuing until a return, a panic, or a recovered panic.
func runFrame(fr *frame) {
	defer func() {
		if fr.block == nil {
			return // normal return
		}
		if fr.i.mode&DisableRecover != 0 {
			return // let interpreter crash
		}
		r := recover()
		if enginePanic(r) {
			panic(r)
		}
		fr.panicking = true
		fr.panic = r
		if debugPanics && !fr.i.tracedPanic {
			fr.i.tracedPanic = true
			fmt.Fprintf(os.Stderr, "TARGET PANIC %s\n", panicString(r))
			for f := fr; f != nil; f = f.caller {
				fmt.Fprintf(os.Stderr, "   in %s\n", f.fn)
			}
		}
		if fr.i.mode&EnableTracing != 0 {
			fmt.Fprintf(os.Stderr, "Panicking: %T %v.\n", fr.panic, fr.panic)
		}
		fr.runDefers()
		fr.block = fr.fn.Recover
	}()

	for {
		if fr.i.mode&EnableTracing != 0 {
			fmt.Fprintf(os.Stderr, ".%s:\n", fr.block)
		}
		if cur != nil && cur.loopCap > 0 && len(fr.block.Preds) > 1 {
			if fr.loopCount == nil {
				fr.loopCount = map[*ssa.BasicBlock]int{}
			}
			fr.loopCount[fr.block]++
			if fr.loopCount[fr.block] > cur.loopCap {
				cur.end("unwind", fmt.Sprintf("loop bound %d exceeded in %s block %d", cur.loopCap, fr.fn, fr.block.Index))
			}
		}

		nonPhis := executePhis(fr)
		curFrame = fr
		if cur != nil {
			cur.steps += int64(len(nonPhis))
			if cur.steps > cur.maxSteps {
				cur.end("unwind", fmt.Sprintf("instruction budget %d exceeded", cur.maxSteps))
			}
		}
		for _, instr := range nonPhis {
			if fr.i.mode&EnableTracing != 0 {
				if v, ok := instr.(ssa.Value); ok {
					fmt.Fprintln(os.Stderr, "\t", v.Name(), "=", instr)
				} else {
					fmt.Fprintln(os.Stderr, "\t", instr)
				}
			}
			if visitInstr(fr, instr) == kReturn {
				return
			}
			// Inv: kNext (continue) or kJump (last instr)
		}
	}
}

// executePhis executes the phi-nodes at the start of the current
// block and returns the non-phi instructions.
func executePhis(fr *frame) []ssa.Instruction {
	firstNonPhi := -1
	for i, instr := range fr.block.Instrs {
		if _, ok := instr.(*ssa.Phi); !ok {
			firstNonPhi = i
			break
		}
	}
	// Inv: 0 <= firstNonPhi; every block contains a non-phi.

	nonPhis := fr.block.Instrs[firstNonPhi:]
	if firstNonPhi > 0 {
		phis := fr.block.Instrs[:firstNonPhi]
		predIndex := slices.Index(fr.block.Preds, fr.prevBlock)
		fr.phitemps = fr.phitemps[:0]
		for _, phi := range phis {
			phi := phi.(*ssa.Phi)
			fr.phitemps = append(fr.phitemps, fr.get(phi.Edges[predIndex]))
		}
		for i, phi := range phis {
			fr.env[phi.(*ssa.Phi)] = fr.phitemps[i]
		}
	}
	return nonPhis
}

// doRecover implements the recover() built-in.
func doRecover(caller *frame) value {
	// recover() must be exactly one level beneath the deferred
	// function (two levels beneath the panicking function) to
	// have any effect.  Thus we ignore both "defer recover()" and
	// "defer f() -> g() -> recover()".
	if caller != nil && caller.i.mode&DisableRecover == 0 &&
		!caller.panicking &&
		caller.caller != nil && caller.caller.panicking {
		caller.caller.panicking = false
		p := caller.caller.panic
		caller.caller.panic = nil

		switch p := p.(type) {
		case targetPanic:
			// The target program explicitly called panic().
			return p.v
		case runtime.Error:
			// The interpreter encountered a runtime error.
			return iface{caller.i.runtimeErrorString, p.Error()}
		case string:
			// The interpreter explicitly called panic().
			return iface{caller.i.runtimeErrorString, p}
		default:
			panic(fmt.Sprintf("unexpected panic type %T in target call to recover()", p))
		}
	}
	return iface{}
}

// panicString renders a panic value for reports.
func panicString(p interface{}) string {
	switch p := p.(type) {
	case targetPanic:
		if it, ok := p.v.(iface); ok {
			if s, ok := it.v.(string); ok {
				return s
			}
			if it.t != nil {
				if msg, ok := errorMessage(it); ok {
					return it.t.String() + ": " + msg
				}
				return "panic value of type " + it.t.String()
			}
		}
		return toString(p.v)
	case runtime.Error:
		return p.Error()
	case runtimeError:
		return p.Error()
	case string:
		return p
	case error:
		return p.Error()
	}
	return fmt.Sprintf("%T %v", p, p)
}
