package interp

// Symbolic scalar and string values.

import (
	"fmt"
	"go/token"
	"go/types"
	"strings"

	"symgo/smt"
)

// sym is a symbolic scalar: a bit-vector (integers) or a Bool term, tagged with
// the Go basic kind it stands for.
type sym struct {
	e *smt.Expr
	k types.BasicKind
}

// symstr is a string with concrete length whose bytes may be symbolic.
// Each element is a uint8 or a sym of kind Uint8. A string whose bytes are all
// concrete is always represented as a Go string instead (see normStr).
type symstr struct {
	b []value
}

// abortPath ends the current path as inconclusive (unsupported feature etc).
type abortPath struct{ reason string }

func unsupported(format string, args ...interface{}) {
	where := ""
	if curFrame != nil {
		where = " [in " + curFrame.fn.String()
		if curFrame.caller != nil {
			where += " <- " + curFrame.caller.fn.String()
		}
		where += "]"
	}
	panic(abortPath{fmt.Sprintf(format, args...) + where})
}

func kindWidth(k types.BasicKind) int {
	switch k {
	case types.Bool:
		return 0
	case types.Int8, types.Uint8:
		return 8
	case types.Int16, types.Uint16:
		return 16
	case types.Int32, types.Uint32:
		return 32
	case types.Int, types.Int64, types.Uint, types.Uint64, types.Uintptr:
		return 64
	}
	panic(fmt.Sprintf("kindWidth: %v", k))
}

func kindSigned(k types.BasicKind) bool {
	switch k {
	case types.Int, types.Int8, types.Int16, types.Int32, types.Int64:
		return true
	}
	return false
}

// scalarKind returns the basic kind of a concrete scalar or sym value.
func scalarKind(v value) (types.BasicKind, bool) {
	switch v := v.(type) {
	case sym:
		return v.k, true
	case bool:
		return types.Bool, true
	case int:
		return types.Int, true
	case int8:
		return types.Int8, true
	case int16:
		return types.Int16, true
	case int32:
		return types.Int32, true
	case int64:
		return types.Int64, true
	case uint:
		return types.Uint, true
	case uint8:
		return types.Uint8, true
	case uint16:
		return types.Uint16, true
	case uint32:
		return types.Uint32, true
	case uint64:
		return types.Uint64, true
	case uintptr:
		return types.Uintptr, true
	}
	return 0, false
}

// lift turns a concrete integer/bool or sym into a term.
func lift(v value) *smt.Expr {
	switch v := v.(type) {
	case sym:
		return v.e
	case bool:
		return smt.Bool(v)
	case int:
		return smt.Const(64, uint64(v))
	case int8:
		return smt.Const(8, uint64(v))
	case int16:
		return smt.Const(16, uint64(v))
	case int32:
		return smt.Const(32, uint64(v))
	case int64:
		return smt.Const(64, uint64(v))
	case uint:
		return smt.Const(64, uint64(v))
	case uint8:
		return smt.Const(8, uint64(v))
	case uint16:
		return smt.Const(16, uint64(v))
	case uint32:
		return smt.Const(32, uint64(v))
	case uint64:
		return smt.Const(64, v)
	case uintptr:
		return smt.Const(64, uint64(v))
	}
	if _, ok := v.(litseg); ok {
		unsupported("byte-wise use of an opaque integer literal")
	}
	panic(fmt.Sprintf("lift: %T", v))
}

// concOf builds the concrete Go value of kind k from a constant.
func concOf(k types.BasicKind, val uint64) value {
	switch k {
	case types.Bool:
		return val != 0
	case types.Int:
		return int(val)
	case types.Int8:
		return int8(val)
	case types.Int16:
		return int16(val)
	case types.Int32:
		return int32(val)
	case types.Int64:
		return int64(val)
	case types.Uint:
		return uint(val)
	case types.Uint8:
		return uint8(val)
	case types.Uint16:
		return uint16(val)
	case types.Uint32:
		return uint32(val)
	case types.Uint64:
		return val
	case types.Uintptr:
		return uintptr(val)
	}
	panic(fmt.Sprintf("concOf: %v", k))
}

// mkSym wraps a term as a value of kind k, folding constants to concrete values.
func mkSym(e *smt.Expr, k types.BasicKind) value {
	if e.IsConst() {
		return concOf(k, e.Val)
	}
	return sym{e, k}
}

func isSym(v value) bool {
	_, ok := v.(sym)
	return ok
}

// basicKindOf returns the basic kind underlying t (if any).
func basicKindOf(t types.Type) (types.BasicKind, bool) {
	if b, ok := t.Underlying().(*types.Basic); ok {
		k := b.Kind()
		switch k {
		case types.UntypedBool:
			k = types.Bool
		case types.UntypedInt:
			k = types.Int
		case types.UntypedRune:
			k = types.Int32
		}
		return k, true
	}
	return 0, false
}

// ---------------------------------------------------------------------------
// scalar operators

func symBinop(op token.Token, x, y value) value {
	kx, _ := scalarKind(x)
	ex, ey := lift(x), lift(y)
	if kx == types.Bool {
		switch op {
		case token.EQL:
			return mkSym(smt.Eq(ex, ey), types.Bool)
		case token.NEQ:
			return mkSym(smt.Not(smt.Eq(ex, ey)), types.Bool)
		case token.AND, token.LAND:
			return mkSym(smt.And(ex, ey), types.Bool)
		case token.OR, token.LOR:
			return mkSym(smt.Or(ex, ey), types.Bool)
		}
		panic(fmt.Sprintf("symBinop: bool op %s", op))
	}
	signed := kindSigned(kx)
	w := kindWidth(kx)
	switch op {
	case token.SHL, token.SHR:
		ky, _ := scalarKind(y)
		if kindSigned(ky) {
			// negative shift count panics
			neg := smt.Cmp("bvslt", ey, smt.Const(ey.W, 0))
			if cur.branch(neg) {
				panic(runtimeError("negative shift amount"))
			}
		}
		cnt := smt.Resize(ey, 64, false)
		big := smt.Cmp("bvuge", cnt, smt.Const(64, uint64(w)))
		cw := smt.Resize(cnt, w, false)
		var r *smt.Expr
		if op == token.SHL {
			r = smt.Ite(big, smt.Const(w, 0), smt.Bin("bvshl", ex, cw))
		} else if signed {
			r = smt.Ite(big, smt.Bin("bvashr", ex, smt.Const(w, uint64(w-1))), smt.Bin("bvashr", ex, cw))
		} else {
			r = smt.Ite(big, smt.Const(w, 0), smt.Bin("bvlshr", ex, cw))
		}
		return mkSym(r, kx)
	}
	if ex.W != ey.W {
		panic(fmt.Sprintf("symBinop %s: width mismatch %T %T", op, x, y))
	}
	switch op {
	case token.ADD:
		return mkSym(smt.Bin("bvadd", ex, ey), kx)
	case token.SUB:
		return mkSym(smt.Bin("bvsub", ex, ey), kx)
	case token.MUL:
		return mkSym(smt.Bin("bvmul", ex, ey), kx)
	case token.QUO, token.REM:
		if cur.branch(smt.Eq(ey, smt.Const(w, 0))) {
			panic(runtimeError("integer divide by zero"))
		}
		var o string
		switch {
		case op == token.QUO && signed:
			o = "bvsdiv"
		case op == token.QUO:
			o = "bvudiv"
		case signed:
			o = "bvsrem"
		default:
			o = "bvurem"
		}
		return mkSym(smt.Bin(o, ex, ey), kx)
	case token.AND:
		return mkSym(smt.Bin("bvand", ex, ey), kx)
	case token.OR:
		return mkSym(smt.Bin("bvor", ex, ey), kx)
	case token.XOR:
		return mkSym(smt.Bin("bvxor", ex, ey), kx)
	case token.AND_NOT:
		return mkSym(smt.Bin("bvand", ex, smt.BvNot(ey)), kx)
	case token.EQL:
		return mkSym(smt.Eq(ex, ey), types.Bool)
	case token.NEQ:
		return mkSym(smt.Not(smt.Eq(ex, ey)), types.Bool)
	case token.LSS, token.LEQ, token.GTR, token.GEQ:
		var o string
		switch op {
		case token.LSS:
			o = "lt"
		case token.LEQ:
			o = "le"
		case token.GTR:
			o = "gt"
		case token.GEQ:
			o = "ge"
		}
		if signed {
			o = "bvs" + o
		} else {
			o = "bvu" + o
		}
		return mkSym(smt.Cmp(o, ex, ey), types.Bool)
	}
	panic(fmt.Sprintf("symBinop: unsupported op %s on %T", op, x))
}

func symUnop(op token.Token, x sym) value {
	switch op {
	case token.SUB:
		return mkSym(smt.BvNeg(x.e), x.k)
	case token.XOR:
		return mkSym(smt.BvNot(x.e), x.k)
	case token.NOT:
		return mkSym(smt.Not(x.e), types.Bool)
	}
	panic(fmt.Sprintf("symUnop: %s", op))
}

// symConv converts symbolic scalar x to basic type dst.
func symConv(dst types.Type, x sym) value {
	dk, ok := basicKindOf(dst)
	if !ok {
		unsupported("conversion of symbolic %v to %s", x.k, dst)
	}
	switch dk {
	case types.Bool:
		return x
	case types.String:
		return symRuneToString(x)
	case types.Float32, types.Float64, types.Complex64, types.Complex128:
		v := cur.concretize(x.e)
		return conv(dst, types.Typ[x.k], concOf(x.k, v))
	case types.UnsafePointer:
		unsupported("symbolic to unsafe.Pointer")
	}
	if x.k == types.Bool {
		return x
	}
	return mkSym(smt.Resize(x.e, kindWidth(dk), kindSigned(x.k)), dk)
}

// symRuneToString implements string(rune) for a symbolic integer: forks on the UTF-8 length class.
func symRuneToString(x sym) value {
	r := smt.Resize(x.e, 32, kindSigned(x.k))
	if x.e.W > 32 {
		// values outside int32 are invalid runes
		fits := smt.Eq(smt.Resize(r, x.e.W, true), x.e)
		if !cur.branch(fits) {
			return "\uFFFD"
		}
	}
	c := func(v uint64) *smt.Expr { return smt.Const(32, v) }
	b := func(e *smt.Expr) value { return mkSym(smt.Extract(7, 0, e), types.Uint8) }
	or := func(k uint64, e *smt.Expr) *smt.Expr { return smt.Bin("bvor", c(k), e) }
	shr := func(e *smt.Expr, n uint64) *smt.Expr { return smt.Bin("bvlshr", e, c(n)) }
	low6 := func(e *smt.Expr) *smt.Expr { return smt.Bin("bvand", e, c(0x3F)) }
	if cur.branch(smt.Cmp("bvult", r, c(0x80))) {
		return normStr([]value{b(r)})
	}
	if cur.branch(smt.Cmp("bvult", r, c(0x800))) {
		return normStr([]value{b(or(0xC0, shr(r, 6))), b(or(0x80, low6(r)))})
	}
	invalid := smt.Or(smt.Cmp("bvugt", r, c(0x10FFFF)), smt.And(smt.Cmp("bvuge", r, c(0xD800)), smt.Cmp("bvule", r, c(0xDFFF))))
	if cur.branch(invalid) {
		return "\uFFFD"
	}
	if cur.branch(smt.Cmp("bvult", r, c(0x10000))) {
		return normStr([]value{b(or(0xE0, shr(r, 12))), b(or(0x80, low6(shr(r, 6)))), b(or(0x80, low6(r)))})
	}
	return normStr([]value{b(or(0xF0, shr(r, 18))), b(or(0x80, low6(shr(r, 12)))), b(or(0x80, low6(shr(r, 6)))), b(or(0x80, low6(r)))})
}

func concSigned(v uint64, k types.BasicKind) int64 {
	w := kindWidth(k)
	if kindSigned(k) && w < 64 && v&(1<<uint(w-1)) != 0 {
		return int64(v | ^((uint64(1) << uint(w)) - 1))
	}
	return int64(v)
}

// ---------------------------------------------------------------------------
// symbolic strings

func normStr(b []value) value {
	for _, c := range b {
		if _, ok := c.(uint8); !ok {
			if sc, ok := c.(sym); ok && sc.k != types.Uint8 {
				panic(fmt.Sprintf("normStr: element of kind %v", sc.k))
			}
			return symstr{b}
		}
	}
	bs := make([]byte, len(b))
	for i, c := range b {
		bs[i] = c.(uint8)
	}
	return string(bs)
}

// strBytes returns the byte values of a string or symstr.
func strBytes(s value) []value {
	switch s := s.(type) {
	case string:
		b := make([]value, len(s))
		for i := 0; i < len(s); i++ {
			b[i] = s[i]
		}
		return b
	case symstr:
		return s.b
	}
	panic(fmt.Sprintf("strBytes: %T", s))
}

func isStr(v value) bool {
	switch v.(type) {
	case string, symstr:
		return true
	}
	return false
}

func strLen(v value) int {
	switch v := v.(type) {
	case string:
		return len(v)
	case symstr:
		return len(v.b)
	}
	panic(fmt.Sprintf("strLen: %T", v))
}

// strEq returns a bool or sym(Bool).
func strEq(x, y value) value {
	if xs, ok := x.(string); ok {
		if ys, ok := y.(string); ok {
			return xs == ys
		}
	}
	xb, yb := strBytes(x), strBytes(y)
	if len(xb) != len(yb) {
		if (hasLit(x) || hasLit(y)) && len(xb) != 0 && len(yb) != 0 {
			unsupported("comparison of an opaque literal with other text")
		}
		return false
	}
	acc := smt.True
	for i := range xb {
		lx, xl := xb[i].(litseg)
		ly, yl := yb[i].(litseg)
		if xl || yl {
			if xl && yl && lx.style == ly.style {
				acc = smt.And(acc, smt.Eq(lx.v, ly.v))
				continue
			}
			other := yb[i]
			if yl {
				other = xb[i]
			}
			if c, ok := other.(uint8); ok && !litChar(c) {
				return false // a literal starts with a sign or digit: differs from this byte
			}
			unsupported("comparison of an opaque literal with other text")
		}
		acc = smt.And(acc, smt.Eq(lift(xb[i]), lift(yb[i])))
		if acc.IsFalse() {
			return false
		}
	}
	return mkSym(acc, types.Bool)
}

// strLess returns x < y lexicographically as bool or sym(Bool).
func litChar(c byte) bool {
	return c == '+' || c == '-' || c == '_' || (c >= '0' && c <= '9') || (c >= 'a' && c <= 'z') || (c >= 'A' && c <= 'Z')
}

func strLess(x, y value) value {
	xb, yb := strBytes(x), strBytes(y)
	// build from the end
	n := len(xb)
	if len(yb) < n {
		n = len(yb)
	}
	res := smt.Bool(len(xb) < len(yb))
	for i := n - 1; i >= 0; i-- {
		a, b := lift(xb[i]), lift(yb[i])
		res = smt.Ite(smt.Cmp("bvult", a, b), smt.True, smt.Ite(smt.Eq(a, b), res, smt.False))
	}
	return mkSym(res, types.Bool)
}

func symStrBinop(op token.Token, x, y value) value {
	switch op {
	case token.ADD:
		xb, yb := strBytes(x), strBytes(y)
		nb := make([]value, 0, len(xb)+len(yb))
		nb = append(nb, xb...)
		nb = append(nb, yb...)
		return normStr(nb)
	case token.EQL:
		return strEq(x, y)
	case token.NEQ:
		return vnot(strEq(x, y))
	case token.LSS:
		return strLess(x, y)
	case token.GTR:
		return strLess(y, x)
	case token.LEQ:
		return vnot(strLess(y, x))
	case token.GEQ:
		return vnot(strLess(x, y))
	}
	panic(fmt.Sprintf("symStrBinop: %s", op))
}

func vnot(v value) value {
	switch v := v.(type) {
	case bool:
		return !v
	case sym:
		return mkSym(smt.Not(v.e), types.Bool)
	}
	panic(fmt.Sprintf("vnot: %T", v))
}

func vand(a, b value) value {
	if ab, ok := a.(bool); ok {
		if !ab {
			return false
		}
		return b
	}
	if bb, ok := b.(bool); ok {
		if !bb {
			return false
		}
		return a
	}
	return mkSym(smt.And(a.(sym).e, b.(sym).e), types.Bool)
}

// describe renders a value for messages; symbolic parts are shown as terms.
func describeStr(v value) string {
	switch v := v.(type) {
	case string:
		return v
	case symstr:
		var sb strings.Builder
		for _, c := range v.b {
			if cb, ok := c.(uint8); ok {
				sb.WriteByte(cb)
			} else if sc, ok := c.(sym); ok {
				sb.WriteString("{" + sc.e.String() + "}")
			} else {
				sb.WriteString("{literal}")
			}
		}
		return sb.String()
	}
	return fmt.Sprint(v)
}

const tokenADD = token.ADD

type runtimeError string

func (e runtimeError) Error() string { return "runtime error: " + string(e) }
func (e runtimeError) RuntimeError() {}
