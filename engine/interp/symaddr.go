package interp

import (
	"fmt"
	"go/types"
	"hash/fnv"

	"symgo/smt"
)

// symAddr is &backing[idx] for a symbolic idx. It supports load (as a table lookup / ite chain
// over scalar elements) and falls back to concretising the index for everything else.
type symAddr struct {
	backing []value
	idx     sym
}

// unsafePtr wraps a value converted to unsafe.Pointer so it can be converted back.
type unsafePtr struct{ p value }

// nativePtr is reserved for engine-managed pointer-like objects.
type nativePtr interface{ load() value }

func makeSymAddr(backing []value, idx sym) (symAddr, bool) {
	if len(backing) == 0 || len(backing) > 1024 {
		return symAddr{}, false
	}
	var k types.BasicKind
	for i, e := range backing {
		ek, ok := scalarKind(e)
		if !ok || ek == types.Bool {
			return symAddr{}, false
		}
		if i == 0 {
			k = ek
		} else if ek != k {
			return symAddr{}, false
		}
	}
	return symAddr{backing, idx}, true
}

func (a symAddr) boundsCheck() {
	n := len(a.backing)
	var inb *smt.Expr
	if kindSigned(a.idx.k) {
		ie := smt.Resize(a.idx.e, 64, true)
		inb = smt.And(smt.Cmp("bvsge", ie, smt.Const(64, 0)), smt.Cmp("bvslt", ie, smt.Const(64, uint64(n))))
	} else {
		ie := smt.Resize(a.idx.e, 64, false)
		inb = smt.Cmp("bvult", ie, smt.Const(64, uint64(n)))
	}
	if !cur.branch(inb) {
		panic(runtimeError(fmt.Sprintf("index out of range [symbolic] with length %d", n)))
	}
}

func (a symAddr) load() value {
	a.boundsCheck()
	k, _ := scalarKind(a.backing[0])
	ew := kindWidth(k)
	allConc := true
	for _, e := range a.backing {
		if isSym(e) {
			allConc = false
			break
		}
	}
	if allConc {
		vals := make([]uint64, len(a.backing))
		h := fnv.New64a()
		for i, e := range a.backing {
			vals[i] = lift(e).Val
			var b [8]byte
			for j := 0; j < 8; j++ {
				b[j] = byte(vals[i] >> (8 * uint(j)))
			}
			h.Write(b[:])
		}
		name := fmt.Sprintf("tbl_%d_%d_%d_%x", len(vals), ew, a.idx.e.W, h.Sum64())
		return mkSym(smt.TableLookup(name, ew, vals, a.idx.e), k)
	}
	res := lift(a.backing[len(a.backing)-1])
	for i := len(a.backing) - 2; i >= 0; i-- {
		res = smt.Ite(smt.Eq(a.idx.e, smt.Const(a.idx.e.W, uint64(i))), lift(a.backing[i]), res)
	}
	return mkSym(res, k)
}

func (a symAddr) concrete() *value {
	i := concSigned(cur.concretize(a.idx.e), a.idx.k)
	if i < 0 || i >= int64(len(a.backing)) {
		panic(runtimeError(fmt.Sprintf("index out of range [%d] with length %d", i, len(a.backing))))
	}
	return &a.backing[i]
}

func (a symAddr) store(v value) {
	p := a.concrete()
	theInterp.logStore(p)
	*p = v
}
