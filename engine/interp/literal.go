package interp

// Opaque integer literals: a litseg is a string segment that stands for the text of an integer
// literal (in one of Go's literal styles) whose value is an SMT term. It is a pseudo-byte of a
// symstr: it never equals a separator or whitespace byte and cannot be inspected byte-wise.
// strconv.ParseInt/ParseUint are modelled on such segments by their documented contract, so one
// query covers every 64-bit value; concrete strings go to the real strconv, symbolic-byte strings
// are interpreted from strconv's source.

import (
	"fmt"
	"go/token"
	"go/types"
	"strconv"

	"golang.org/x/tools/go/ssa"

	"symgo/smt"
)

const litW = 66 // mathematical value as a signed 66-bit vector: covers [-2^63, 2^64-1] and beyond

const (
	styleDecimal = iota
	styleHex
	styleOctal
	styleBinary
	styleUnderscore
)

type litseg struct {
	v     *smt.Expr // litW bits, signed
	style int
}

type fallthroughToSSA struct{}

// litBinop compares an opaque literal (as a pseudo byte) with a byte: it never equals a byte that
// cannot occur in a literal; anything else needs the literal's text and is unsupported.
func litBinop(op token.Token, other value) value {
	if c, ok := other.(uint8); ok && !litChar(c) {
		switch op {
		case token.EQL:
			return false
		case token.NEQ:
			return true
		}
	}
	unsupported("byte-wise use of an opaque integer literal")
	return nil
}

func hasLit(s value) bool {
	if ss, ok := s.(symstr); ok {
		for _, e := range ss.b {
			if _, ok := e.(litseg); ok {
				return true
			}
		}
	}
	return false
}

func soleLit(s value) (litseg, bool) {
	if ss, ok := s.(symstr); ok && len(ss.b) == 1 {
		l, ok := ss.b[0].(litseg)
		return l, ok
	}
	return litseg{}, false
}

func strconvGlobal(name string) value {
	pkg := theInterp.prog.ImportedPackage("strconv")
	if pkg == nil {
		return nil
	}
	g := pkg.Var(name)
	if g == nil {
		return nil
	}
	return *theInterp.globals[g]
}

// numError builds a *strconv.NumError like the real package does.
func numError(fn string, which string) value {
	pkg := theInterp.prog.ImportedPackage("strconv")
	errv := strconvGlobal(which)
	if pkg == nil || errv == nil || pkg.Type("NumError") == nil {
		return newEngineErr("strconv."+fn+": "+which, nil)
	}
	t := pkg.Type("NumError").Type()
	var cell value = structure{fn, "<literal>", errv}
	return iface{t: types.NewPointer(t), v: &cell}
}

func parseIntContract(fn string, signed bool, args []value) value {
	s := args[0]
	base := int(asInt64(args[1]))
	bits := int(asInt64(args[2]))
	if bits == 0 {
		bits = 64
	}
	resK := types.Int64
	if !signed {
		resK = types.Uint64
	}
	zero := concOf(resK, 0)
	l, ok := soleLit(s)
	if !ok {
		// a literal with anything around it (spaces, separators) is a syntax error for strconv
		return tuple{zero, numError(fn, "ErrSyntax")}
	}
	if bits < 0 || bits > 64 {
		return tuple{zero, numError(fn, "ErrRange")}
	}
	switch {
	case base == 0:
	case base == 10 && l.style == styleDecimal:
	default:
		return tuple{zero, numError(fn, "ErrSyntax")}
	}
	one := smt.WideConst(litW, 1)
	if signed {
		lo := smt.BvNeg(smt.WidePow2(litW, bits-1))
		hi := smt.Bin("bvsub", smt.WidePow2(litW, bits-1), one)
		if cur.branch(smt.Cmp("bvslt", l.v, lo)) {
			return tuple{mkSym(smt.Extract(63, 0, lo), resK), numError(fn, "ErrRange")}
		}
		if cur.branch(smt.Cmp("bvsgt", l.v, hi)) {
			return tuple{mkSym(smt.Extract(63, 0, hi), resK), numError(fn, "ErrRange")}
		}
		return tuple{mkSym(smt.Extract(63, 0, l.v), resK), iface{}}
	}
	if cur.branch(smt.Cmp("bvslt", l.v, smt.WideConst(litW, 0))) {
		return tuple{zero, numError(fn, "ErrSyntax")}
	}
	hi := smt.Bin("bvsub", smt.WidePow2(litW, bits), one)
	if cur.branch(smt.Cmp("bvsgt", l.v, hi)) {
		return tuple{mkSym(smt.Extract(63, 0, hi), resK), numError(fn, "ErrRange")}
	}
	return tuple{mkSym(smt.Extract(63, 0, l.v), resK), iface{}}
}

func callBody(name string, fr *frame, args []value) value {
	panic(fallthroughToSSA{})
}

func init() {
	externals["strconv.ParseInt"] = func(fr *frame, args []value) value {
		if s, ok := args[0].(string); ok && !isSym(args[1]) && !isSym(args[2]) {
			v, err := strconv.ParseInt(s, int(asInt64(args[1])), int(asInt64(args[2])))
			return tuple{v, nativeNumErr("ParseInt", err)}
		}
		if hasLit(args[0]) {
			return parseIntContract("ParseInt", true, args)
		}
		panic(fallthroughToSSA{})
	}
	externals["strconv.ParseUint"] = func(fr *frame, args []value) value {
		if s, ok := args[0].(string); ok && !isSym(args[1]) && !isSym(args[2]) {
			v, err := strconv.ParseUint(s, int(asInt64(args[1])), int(asInt64(args[2])))
			return tuple{v, nativeNumErr("ParseUint", err)}
		}
		if hasLit(args[0]) {
			return parseIntContract("ParseUint", false, args)
		}
		panic(fallthroughToSSA{})
	}
	externals["strconv.Atoi"] = func(fr *frame, args []value) value {
		if s, ok := args[0].(string); ok {
			v, err := strconv.Atoi(s)
			return tuple{v, nativeNumErr("Atoi", err)}
		}
		if hasLit(args[0]) {
			r := parseIntContract("Atoi", true, []value{args[0], 10, 64}).(tuple)
			return tuple{conv(types.Typ[types.Int], types.Typ[types.Int64], r[0]), r[1]}
		}
		panic(fallthroughToSSA{})
	}
	fmtInt := func(signed bool) externalFn {
		return func(fr *frame, args []value) value {
			base := int(asInt64(args[1]))
			if sx, ok := args[0].(sym); ok {
				if base == 10 {
					return symstr{[]value{litseg{smt.Resize(sx.e, litW, signed), styleDecimal}}}
				}
				v := cur.concretize(sx.e)
				if signed {
					return strconv.FormatInt(int64(v), base)
				}
				return strconv.FormatUint(v, base)
			}
			if signed {
				return strconv.FormatInt(asInt64(args[0]), base)
			}
			return strconv.FormatUint(asUint64(args[0]), base)
		}
	}
	externals["strconv.FormatInt"] = fmtInt(true)
	externals["strconv.FormatUint"] = fmtInt(false)
	externals["strconv.Itoa"] = func(fr *frame, args []value) value {
		if sx, ok := args[0].(sym); ok {
			return symstr{[]value{litseg{smt.Resize(sx.e, litW, true), styleDecimal}}}
		}
		return strconv.Itoa(int(asInt64(args[0])))
	}
	lit := func(signed bool) externalFn {
		return func(fr *frame, args []value) value {
			style := int(asInt64(args[1]))
			var e *smt.Expr
			if sx, ok := args[0].(sym); ok {
				e = smt.Resize(sx.e, litW, signed)
			} else if signed {
				e = smt.Resize(smt.Const(64, uint64(asInt64(args[0]))), litW, true)
			} else {
				e = smt.Resize(smt.Const(64, asUint64(args[0])), litW, false)
			}
			return symstr{[]value{litseg{e, style}}}
		}
	}
	externals[vpkg+"Literal"] = lit(true)
	externals[vpkg+"LiteralU"] = lit(false)
	// a literal beyond 64 bits: value v*2^64 + lo style decimal (for "wider than any type" cases)
	externals[vpkg+"LiteralWide"] = func(fr *frame, args []value) value {
		neg := truth(args[0])
		e := smt.WidePow2(litW, 64)
		if neg {
			e = smt.BvNeg(e)
		}
		return symstr{[]value{litseg{e, styleDecimal}}}
	}
	externals["strings.TrimSpace"] = func(fr *frame, args []value) value {
		if !hasLit(args[0]) {
			if s, ok := args[0].(string); ok {
				return trimSpaceConcrete(s)
			}
			panic(fallthroughToSSA{})
		}
		b := args[0].(symstr).b
		isSpace := func(e value) bool {
			switch c := e.(type) {
			case litseg:
				return false
			case uint8:
				return c == ' ' || c == '\t' || c == '\n' || c == '\v' || c == '\f' || c == '\r'
			case sym:
				if truth(mkSym(smt.Cmp("bvuge", c.e, smt.Const(8, 0x80)), types.Bool)) {
					unsupported("TrimSpace on symbolic non-ASCII byte next to an opaque literal")
				}
				sp := smt.Or(smt.Eq(c.e, smt.Const(8, ' ')), smt.And(smt.Cmp("bvuge", c.e, smt.Const(8, 9)), smt.Cmp("bvule", c.e, smt.Const(8, 13))))
				return truth(mkSym(sp, types.Bool))
			}
			return false
		}
		lo, hi := 0, len(b)
		for lo < hi && isSpace(b[lo]) {
			lo++
		}
		for hi > lo && isSpace(b[hi-1]) {
			hi--
		}
		return normStr(b[lo:hi:hi])
	}
}

func trimSpaceConcrete(s string) string {
	// strings.TrimSpace semantics via the real package
	return stringsTrimSpace(s)
}

func nativeNumErr(fn string, err error) value {
	if err == nil {
		return iface{}
	}
	ne, ok := err.(*strconv.NumError)
	if !ok {
		return newEngineErr(err.Error(), nil)
	}
	which := "ErrSyntax"
	if ne.Err == strconv.ErrRange {
		which = "ErrRange"
	}
	pkg := theInterp.prog.ImportedPackage("strconv")
	errv := strconvGlobal(which)
	if pkg == nil || errv == nil || pkg.Type("NumError") == nil {
		return newEngineErr(err.Error(), nil)
	}
	var cell value = structure{ne.Func, ne.Num, errv}
	if which != "ErrRange" && ne.Err != strconv.ErrSyntax {
		// invalid base / bit size errors: errors.New values
		cell = structure{ne.Func, ne.Num, newEngineErr(ne.Err.Error(), nil)}
	}
	return iface{t: types.NewPointer(pkg.Type("NumError").Type()), v: &cell}
}

var _ = fmt.Sprint
var _ *ssa.Function
