package interp

import (
	"go/token"
	"go/types"

	"golang.org/x/tools/go/ssa"
)

func needSched() *scheduler {
	if cur == nil || cur.sched == nil {
		panic(abortPath{"channel operation outside a scheduled path"})
	}
	return cur.sched
}

func chanSend(c *mchan, v value, site string) {
	s := needSched()
	s.syncPoint(&pendingOp{kind: opSend, ch: c, val: v, site: site})
}

func chanRecv(c *mchan, instr *ssa.UnOp) (value, bool) {
	s := needSched()
	site := ""
	if instr != nil {
		site = siteOf(instr.Pos())
	}
	msg := s.syncPoint(&pendingOp{kind: opRecv, ch: c, site: site})
	return msg.val, msg.ok
}

func chanClose(c *mchan, caller *frame) {
	if c == nil {
		panic(runtimeError("close of nil channel"))
	}
	s := needSched()
	s.syncPoint(&pendingOp{kind: opClose, ch: c, site: ""})
}

func siteOf(pos token.Pos) string {
	if pos == token.NoPos || theInterp == nil {
		return ""
	}
	p := theInterp.prog.Fset.Position(pos)
	f := p.Filename
	for i := len(f) - 1; i >= 0; i-- {
		if f[i] == '/' {
			f = f[i+1:]
			break
		}
	}
	return f + ":" + itoa(p.Line)
}

func itoa(n int) string {
	if n == 0 {
		return "0"
	}
	var b [20]byte
	i := len(b)
	for n > 0 {
		i--
		b[i] = byte('0' + n%10)
		n /= 10
	}
	return string(b[i:])
}

func doSelect(fr *frame, instr *ssa.Select) value {
	s := needSched()
	op := &pendingOp{kind: opSelect, hasDflt: !instr.Blocking, site: fr.site(instr.Pos())}
	for _, st := range instr.States {
		c, _ := fr.get(st.Chan).(*mchan)
		sc := selCase{ch: c, send: st.Dir == types.SendOnly}
		if sc.send {
			sc.val = fr.get(st.Send)
		}
		op.cases = append(op.cases, sc)
	}
	msg := s.syncPoint(op)
	chosen := msg.chosen
	r := tuple{chosen, msg.ok}
	for i, st := range instr.States {
		if st.Dir == types.RecvOnly {
			var v value
			if i == chosen && msg.ok {
				v = msg.val
			} else {
				v = zero(st.Chan.Type().Underlying().(*types.Chan).Elem())
			}
			r = append(r, v)
		}
	}
	return r
}

// runGoroutineBody runs a spawned function to completion on the current (modelled) goroutine.
func runGoroutineBody(i *interpreter, pos token.Pos, fn value, args []value) {
	call(i, nil, pos, fn, args)
}
