package main

// Instrumentation for native schedule replay: rewrites copies of Go source files so that every
// synchronisation operation the symbolic scheduler treats as a scheduling point is preceded by
// zzverif.Yield(site), and `go` statements go through zzverif.Go. The rewritten files are used
// only as `go test -overlay` replacements; /repo is never written.

import (
	"bytes"
	"encoding/json"
	"fmt"
	"go/ast"
	"go/printer"
	"go/token"
	"go/types"
	"os"
	"path/filepath"
	"strings"

	"golang.org/x/tools/go/packages"
)

type instr struct {
	fset *token.FileSet
	info *types.Info
	file *ast.File
	used bool
}

func (in *instr) site(pos token.Pos) string {
	p := in.fset.Position(pos)
	return fmt.Sprintf("%s:%d", filepath.Base(p.Filename), p.Line)
}

func (in *instr) yieldStmt(pos token.Pos) ast.Stmt {
	in.used = true
	return &ast.ExprStmt{X: &ast.CallExpr{
		Fun:  &ast.SelectorExpr{X: ast.NewIdent("zzverif"), Sel: ast.NewIdent("Yield")},
		Args: []ast.Expr{&ast.BasicLit{Kind: token.STRING, Value: fmt.Sprintf("%q", in.site(pos))}},
	}}
}

func namedIs(t types.Type, pkg, name string) bool {
	if p, ok := t.(*types.Pointer); ok {
		t = p.Elem()
	}
	if n, ok := t.(*types.Named); ok && n.Obj().Pkg() != nil {
		return n.Obj().Pkg().Path() == pkg && n.Obj().Name() == name
	}
	return false
}

func isChan(t types.Type) bool {
	if t == nil {
		return false
	}
	_, ok := t.Underlying().(*types.Chan)
	return ok
}

// countOps counts the sync operations in the expression/statement header (not descending into
// function literals).
func (in *instr) countOps(n ast.Node) int {
	if n == nil {
		return 0
	}
	cnt := 0
	ast.Inspect(n, func(x ast.Node) bool {
		switch e := x.(type) {
		case *ast.FuncLit:
			return false
		case *ast.UnaryExpr:
			if e.Op == token.ARROW {
				cnt++
			}
		case *ast.CallExpr:
			if in.isSyncCall(e) {
				cnt++
			}
		}
		return true
	})
	return cnt
}

func (in *instr) isSyncCall(c *ast.CallExpr) bool {
	switch f := c.Fun.(type) {
	case *ast.Ident:
		if f.Name == "close" {
			if _, ok := in.info.Uses[f].(*types.Builtin); ok {
				return true
			}
		}
		if tv, ok := in.info.Types[c.Fun]; ok && namedIs(tv.Type, "context", "CancelFunc") {
			return true
		}
	case *ast.SelectorExpr:
		if tv, ok := in.info.Types[c.Fun]; ok && namedIs(tv.Type, "context", "CancelFunc") {
			return true
		}
		sel := in.info.Selections[f]
		if sel == nil {
			// package-qualified call
			if id, ok := f.X.(*ast.Ident); ok {
				if pn, ok := in.info.Uses[id].(*types.PkgName); ok && pn.Imported().Path() == "github.com/vimeo/dials/zzverif" {
					switch f.Sel.Name {
					case "Event", "Quiesce":
						return false // they yield themselves
					}
				}
			}
			return false
		}
		recv := sel.Recv()
		m := f.Sel.Name
		switch {
		case namedIs(recv, "sync", "Mutex") || namedIs(recv, "sync", "RWMutex"):
			return m == "Lock" || m == "Unlock" || m == "RLock" || m == "RUnlock"
		case namedIs(recv, "sync", "WaitGroup"):
			return m == "Add" || m == "Done" || m == "Wait"
		case namedIs(recv, "sync", "Once"):
			return m == "Do"
		case isAtomicType(recv):
			return m == "Load" || m == "Store" || m == "Swap" || m == "CompareAndSwap" || m == "Add"
		case namedIs(recv, "context", "Context"):
			return m == "Err"
		}
	}
	return false
}

func isAtomicType(t types.Type) bool {
	if p, ok := t.(*types.Pointer); ok {
		t = p.Elem()
	}
	if n, ok := t.(*types.Named); ok && n.Obj().Pkg() != nil {
		return n.Obj().Pkg().Path() == "sync/atomic"
	}
	return false
}

// rewriteBlock rewrites the statement list in place.
func (in *instr) rewriteList(list []ast.Stmt) []ast.Stmt {
	var out []ast.Stmt
	for _, st := range list {
		out = append(out, in.rewriteStmt(st)...)
	}
	return out
}

func (in *instr) funcLits(n ast.Node) {
	if n == nil {
		return
	}
	ast.Inspect(n, func(x ast.Node) bool {
		if fl, ok := x.(*ast.FuncLit); ok {
			fl.Body.List = in.rewriteList(fl.Body.List)
			return false
		}
		return true
	})
}

func (in *instr) yields(n int, pos token.Pos) []ast.Stmt {
	var out []ast.Stmt
	for i := 0; i < n; i++ {
		out = append(out, in.yieldStmt(pos))
	}
	return out
}

func (in *instr) rewriteStmt(st ast.Stmt) []ast.Stmt {
	switch s := st.(type) {
	case *ast.BlockStmt:
		s.List = in.rewriteList(s.List)
		return []ast.Stmt{s}
	case *ast.LabeledStmt:
		inner := in.rewriteStmt(s.Stmt)
		if len(inner) == 1 {
			s.Stmt = inner[0]
			return []ast.Stmt{s}
		}
		// yields go before the label's statement inside a block is not possible; put them before the label
		s.Stmt = inner[len(inner)-1]
		return append(inner[:len(inner)-1], s)
	case *ast.IfStmt:
		n := in.countOps(s.Init) + in.countOps(s.Cond)
		in.funcLits(s.Init)
		in.funcLits(s.Cond)
		s.Body.List = in.rewriteList(s.Body.List)
		if s.Else != nil {
			e := in.rewriteStmt(s.Else)
			if len(e) == 1 {
				s.Else = e[0]
			} else {
				s.Else = &ast.BlockStmt{List: e}
			}
		}
		return append(in.yields(n, s.Pos()), s)
	case *ast.ForStmt:
		n := in.countOps(s.Init)
		in.funcLits(s.Init)
		in.funcLits(s.Cond)
		in.funcLits(s.Post)
		s.Body.List = in.rewriteList(s.Body.List)
		if c := in.countOps(s.Cond) + in.countOps(s.Post); c > 0 {
			fmt.Fprintf(os.Stderr, "instrument: %s: sync op in for condition/post not instrumented\n", in.site(s.Pos()))
		}
		return append(in.yields(n, s.Pos()), s)
	case *ast.RangeStmt:
		in.funcLits(s.X)
		s.Body.List = in.rewriteList(s.Body.List)
		if tv, ok := in.info.Types[s.X]; ok && isChan(tv.Type) {
			// for x := range ch { body }  =>  for { Yield; x, ok := <-ch; if !ok { break }; body }
			okId := ast.NewIdent("zzok")
			var lhs []ast.Expr
			if s.Key != nil {
				lhs = []ast.Expr{s.Key, okId}
			} else {
				lhs = []ast.Expr{ast.NewIdent("_"), okId}
			}
			tok := token.DEFINE
			recv := &ast.AssignStmt{Lhs: lhs, Tok: tok, Rhs: []ast.Expr{&ast.UnaryExpr{Op: token.ARROW, X: s.X}}}
			brk := &ast.IfStmt{Cond: &ast.UnaryExpr{Op: token.NOT, X: okId}, Body: &ast.BlockStmt{List: []ast.Stmt{&ast.BranchStmt{Tok: token.BREAK}}}}
			body := append([]ast.Stmt{in.yieldStmt(s.Pos()), recv, brk}, s.Body.List...)
			return []ast.Stmt{&ast.ForStmt{Body: &ast.BlockStmt{List: body}}}
		}
		n := in.countOps(s.X)
		return append(in.yields(n, s.Pos()), s)
	case *ast.SwitchStmt:
		n := in.countOps(s.Init) + in.countOps(s.Tag)
		in.funcLits(s.Init)
		in.funcLits(s.Tag)
		for _, c := range s.Body.List {
			cc := c.(*ast.CaseClause)
			cc.Body = in.rewriteList(cc.Body)
		}
		return append(in.yields(n, s.Pos()), s)
	case *ast.TypeSwitchStmt:
		n := in.countOps(s.Init) + in.countOps(s.Assign)
		for _, c := range s.Body.List {
			cc := c.(*ast.CaseClause)
			cc.Body = in.rewriteList(cc.Body)
		}
		return append(in.yields(n, s.Pos()), s)
	case *ast.SelectStmt:
		for _, c := range s.Body.List {
			cc := c.(*ast.CommClause)
			cc.Body = in.rewriteList(cc.Body)
		}
		return []ast.Stmt{in.yieldStmt(s.Pos()), s}
	case *ast.GoStmt:
		in.funcLits(s.Call)
		in.used = true
		call := &ast.CallExpr{
			Fun: &ast.SelectorExpr{X: ast.NewIdent("zzverif"), Sel: ast.NewIdent("Go")},
			Args: []ast.Expr{
				&ast.BasicLit{Kind: token.STRING, Value: fmt.Sprintf("%q", in.site(s.Pos()))},
				&ast.FuncLit{Type: &ast.FuncType{Params: &ast.FieldList{}}, Body: &ast.BlockStmt{List: []ast.Stmt{&ast.ExprStmt{X: s.Call}}}},
			},
		}
		return []ast.Stmt{&ast.ExprStmt{X: call}}
	case *ast.DeferStmt:
		in.funcLits(s.Call)
		if in.isSyncCall(s.Call) {
			fl := &ast.FuncLit{Type: &ast.FuncType{Params: &ast.FieldList{}}, Body: &ast.BlockStmt{List: []ast.Stmt{in.yieldStmt(s.Pos()), &ast.ExprStmt{X: s.Call}}}}
			s.Call = &ast.CallExpr{Fun: fl}
		}
		return []ast.Stmt{s}
	case *ast.SendStmt:
		in.funcLits(s.Value)
		n := 1 + in.countOps(s.Chan) + in.countOps(s.Value)
		return append(in.yields(n, s.Pos()), s)
	default:
		n := in.countOps(st)
		in.funcLits(st)
		return append(in.yields(n, st.Pos()), st)
	}
}

func addImport(f *ast.File, path string) {
	for _, im := range f.Imports {
		if strings.Trim(im.Path.Value, `"`) == path {
			return
		}
	}
	spec := &ast.ImportSpec{Path: &ast.BasicLit{Kind: token.STRING, Value: fmt.Sprintf("%q", path)}}
	decl := &ast.GenDecl{Tok: token.IMPORT, Specs: []ast.Spec{spec}}
	f.Decls = append([]ast.Decl{decl}, f.Decls...)
	f.Imports = append(f.Imports, spec)
}

// instrumentMain: symgo -mode instrument -pkgs a,b -out dir ; writes rewritten copies and a
// JSON map {original path: rewritten path} to <dir>/map.json.
func instrumentMain() {
	ov, _ := overlayMap()
	var roots []string
	for _, p := range strings.Split(*fPkgs, ",") {
		if p = strings.TrimSpace(p); p != "" {
			roots = append(roots, p)
		}
	}
	cfg := &packages.Config{
		Mode:    packages.LoadSyntax,
		Dir:     *fRepo,
		Overlay: ov,
		Env:     append(os.Environ(), "GOFLAGS=-mod=mod", "GOPROXY=off", "GOSUMDB=off", "GOTOOLCHAIN=local"),
	}
	pkgs, err := packages.Load(cfg, roots...)
	if err != nil {
		fmt.Fprintln(os.Stderr, err)
		os.Exit(3)
	}
	outDir := *fOut
	os.MkdirAll(outDir, 0755)
	mapping := map[string]string{}
	n := 0
	for _, p := range pkgs {
		if len(p.Errors) > 0 {
			fmt.Fprintln(os.Stderr, "instrument: load errors in", p.PkgPath, p.Errors)
			os.Exit(3)
		}
		for i, f := range p.Syntax {
			fname := p.CompiledGoFiles[i]
			if strings.HasSuffix(fname, "_test.go") {
				continue
			}
			in := &instr{fset: p.Fset, info: p.TypesInfo, file: f}
			for _, d := range f.Decls {
				if fd, ok := d.(*ast.FuncDecl); ok && fd.Body != nil {
					fd.Body.List = in.rewriteList(fd.Body.List)
				}
			}
			if !in.used {
				continue
			}
			if p.PkgPath != *fMod+"/zzverif" {
				addImport(f, *fMod+"/zzverif")
			}
			var buf bytes.Buffer
			if err := printer.Fprint(&buf, p.Fset, f); err != nil {
				fmt.Fprintln(os.Stderr, "instrument:", err)
				os.Exit(3)
			}
			n++
			dst := filepath.Join(outDir, fmt.Sprintf("instr_%d_%s", n, filepath.Base(fname)))
			os.WriteFile(dst, buf.Bytes(), 0644)
			mapping[fname] = dst
		}
	}
	b, _ := json.MarshalIndent(mapping, "", " ")
	os.WriteFile(filepath.Join(outDir, "map.json"), b, 0644)
}
