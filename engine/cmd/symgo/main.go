// symgo: symbolic execution of Go harnesses over the real SSA of a repository.
//
//	symgo -entry pkg.Func [-pkgs p1,p2] [-workers N] -out result.json     master: explores all paths
//	symgo -mode worker ...                                                worker: JSON lines on stdin/stdout
//	symgo -mode single -prefix '[...]' ...                                re-execute one recorded path
package main

import (
	"bufio"
	"encoding/json"
	"flag"
	"fmt"
	"go/types"
	"math/rand"
	"os"
	"os/exec"
	"path/filepath"
	"regexp"
	"sort"
	"strings"
	"sync"
	"time"

	"golang.org/x/tools/go/packages"
	"golang.org/x/tools/go/ssa"
	"golang.org/x/tools/go/ssa/ssautil"

	"symgo/interp"
	"symgo/smt"
)

var (
	fRepo     = flag.String("repo", "/repo", "repository root")
	fHarness  = flag.String("harness-dir", "/verif/harness", "harness sources, mirrored into the repo by overlay")
	fMod      = flag.String("module", "github.com/vimeo/dials", "module path of the repository")
	fPkgs     = flag.String("pkgs", "", "comma-separated extra packages to load from source (interpreted)")
	fEntry    = flag.String("entry", "", "harness entry: <pkgpath>.<Func>")
	fMode     = flag.String("mode", "master", "master|worker|single")
	fWorkers  = flag.Int("workers", 8, "worker processes")
	fOut      = flag.String("out", "", "result file (master)")
	fPrefix   = flag.String("prefix", "", "decision prefix JSON (single)")
	fMaxPaths = flag.Int("maxpaths", 200000, "stop after this many paths (reported as incomplete)")
	fLoopCap  = flag.Int("loopcap", 0, "per-frame loop header visit bound (0 = none)")
	fMaxSteps = flag.Int64("maxsteps", 0, "instruction budget per path")
	fSched    = flag.Int("schedsteps", 0, "scheduler step bound per path")
	fTrace    = flag.Bool("trace", false, "trace instructions (single)")
	fSolver   = flag.String("solver", "z3-new", "solver binary")
	fTimeout  = flag.Duration("timeout", 0, "wall-clock limit for the exploration (master)")
	fSeed     = flag.Int64("seed", 0, "seed (orders work queue)")
	fDumpSMT  = flag.String("dump-smt", "", "write solver transcript to this file (single)")
)

type loaded struct {
	prog  *ssa.Program
	entry *ssa.Function
	eng   *interp.Engine
	stubs map[string]string
	pkgs  []*packages.Package
}

func overlayMap() (map[string][]byte, []string) {
	ov := map[string][]byte{}
	var extraPkgs []string
	filepath.Walk(*fHarness, func(path string, info os.FileInfo, err error) error {
		if err != nil || info.IsDir() || !strings.HasSuffix(path, ".go") || strings.HasSuffix(path, "_test.go") {
			return nil
		}
		rel, _ := filepath.Rel(*fHarness, path)
		dir := filepath.Dir(rel)
		data, err := os.ReadFile(path)
		if err != nil {
			return nil
		}
		if strings.Contains(string(data), "//go:build ignore") {
			return nil
		}
		dst := filepath.Join(*fRepo, dir, "zz_verif_"+filepath.Base(rel))
		ov[dst] = data
		return nil
	})
	return ov, extraPkgs
}

var stubRe = regexp.MustCompile(`(?m)^//verif:stub\s+(\S+)\s*\nfunc\s+(\w+)\(`)

func load() (*loaded, error) {
	ov, _ := overlayMap()
	i := strings.LastIndex(*fEntry, ".")
	if i < 0 {
		return nil, fmt.Errorf("bad -entry")
	}
	entryPkg, entryFn := (*fEntry)[:i], (*fEntry)[i+1:]
	roots := []string{entryPkg, *fMod + "/zzverif"}
	for _, p := range strings.Split(*fPkgs, ",") {
		if p = strings.TrimSpace(p); p != "" {
			roots = append(roots, p)
		}
	}
	cfg := &packages.Config{
		Mode:    packages.LoadSyntax,
		Dir:     *fRepo,
		Overlay: ov,
		Env:     append(os.Environ(), "GOFLAGS=-mod=mod", "GOPROXY=off", "GOSUMDB=off", "GOTOOLCHAIN=local"),
	}
	pkgs, err := packages.Load(cfg, roots...)
	if err != nil {
		return nil, err
	}
	var errs []string
	for _, p := range pkgs {
		for _, e := range p.Errors {
			errs = append(errs, e.Error())
		}
	}
	if len(errs) > 0 {
		return nil, fmt.Errorf("load errors:\n%s", strings.Join(errs, "\n"))
	}
	prog, spkgs := ssautil.Packages(pkgs, ssa.InstantiateGenerics)
	// Packages known only through export data (no packages.Package with Types) still need an
	// (empty-bodied) SSA package so that references to their members resolve.
	{
		seen := map[*types.Package]bool{}
		var visit func(tp *types.Package)
		visit = func(tp *types.Package) {
			if seen[tp] {
				return
			}
			seen[tp] = true
			if prog.Package(tp) == nil {
				prog.CreatePackage(tp, nil, nil, true)
			}
			for _, imp := range tp.Imports() {
				visit(imp)
			}
		}
		for _, sp := range prog.AllPackages() {
			visit(sp.Pkg)
		}
	}
	prog.Build()
	var main *ssa.Package
	var rootPkgs []*ssa.Package
	for k, sp := range spkgs {
		if sp == nil {
			continue
		}
		rootPkgs = append(rootPkgs, sp)
		if pkgs[k].PkgPath == entryPkg {
			main = sp
		}
	}
	if main == nil {
		return nil, fmt.Errorf("entry package %s not loaded", entryPkg)
	}
	fn := main.Func(entryFn)
	if fn == nil {
		return nil, fmt.Errorf("entry function %s not found in %s", entryFn, entryPkg)
	}
	// stubs declared in the harness sources of the entry package
	stubs := map[string]*ssa.Function{}
	stubNames := map[string]string{}
	for path, data := range ov {
		for _, m := range stubRe.FindAllStringSubmatch(string(data), -1) {
			dir := filepath.Dir(path)
			rel, _ := filepath.Rel(*fRepo, dir)
			pp := *fMod
			if rel != "." {
				pp += "/" + rel
			}
			for k, sp := range spkgs {
				if sp != nil && pkgs[k].PkgPath == pp {
					if sf := sp.Func(m[2]); sf != nil {
						stubs[m[1]] = sf
						stubNames[m[1]] = pp + "." + m[2]
					}
				}
			}
		}
	}
	sizes := types.SizesFor("gc", "amd64")
	eng := interp.New(prog, sizes, stubs, rootPkgs)
	return &loaded{prog: prog, entry: fn, eng: eng, stubs: stubNames, pkgs: pkgs}, nil
}

type workReq struct {
	Prefix []interp.Decision `json:"prefix"`
	Done   bool              `json:"done,omitempty"`
}

type workerSummary struct {
	Funcs    map[string]int `json:"funcs"` // name -> SSA instruction count
	Calls    map[string]int `json:"calls"`
	Queries  int            `json:"queries"`
	Sat      int            `json:"sat"`
	Unsat    int            `json:"unsat"`
	Unknown  int            `json:"unknown"`
	Errors   int            `json:"errors"`
	SolveSec float64        `json:"solve_s"`
	InitErrs []string       `json:"init_errs,omitempty"`
	LastErr  string         `json:"last_err,omitempty"`
}

func opts() interp.Options {
	return interp.Options{MaxSteps: *fMaxSteps, LoopCap: *fLoopCap, SchedSteps: *fSched, Trace: *fTrace}
}

func workerMain() {
	ld, err := load()
	if err != nil {
		fmt.Fprintln(os.Stderr, "worker load:", err)
		fmt.Println(`{"fatal":` + fmt.Sprintf("%q", err.Error()) + `}`)
		os.Exit(3)
	}
	solver, err := smt.NewSolver(*fSolver, "-in")
	if err != nil {
		fmt.Println(`{"fatal":"cannot start solver"}`)
		os.Exit(3)
	}
	fmt.Println(`{"ready":true}`)
	in := bufio.NewReaderSize(os.Stdin, 1<<20)
	out := bufio.NewWriter(os.Stdout)
	calls := map[string]int{}
	for {
		line, err := in.ReadBytes('\n')
		if err != nil {
			return
		}
		var req workReq
		if json.Unmarshal(line, &req) != nil {
			continue
		}
		if req.Done {
			sum := workerSummary{Funcs: map[string]int{}, Calls: calls, Queries: solver.Queries, Sat: solver.NSat, Unsat: solver.NUnsat,
				Unknown: solver.NUnknown, Errors: solver.NErrors, SolveSec: solver.SolveTime.Seconds(), InitErrs: ld.eng.InitErrs, LastErr: solver.LastError}
			for _, f := range allFuncs(ld.prog) {
				if n, ok := calls[f.String()]; ok && n > 0 {
					sum.Funcs[f.String()] = interp.InstrCount(f)
				}
			}
			b, _ := json.Marshal(sum)
			out.Write(b)
			out.WriteByte('\n')
			out.Flush()
			return
		}
		res := ld.eng.RunPath(ld.entry, req.Prefix, solver, opts())
		for k, v := range res.Funcs {
			calls[k] += v
		}
		b, _ := json.Marshal(res)
		out.Write(b)
		out.WriteByte('\n')
		out.Flush()
	}
}

func allFuncs(prog *ssa.Program) []*ssa.Function {
	var out []*ssa.Function
	for f := range ssautil.AllFunctions(prog) {
		out = append(out, f)
	}
	return out
}

type Result struct {
	Entry       string             `json:"entry"`
	Paths       int                `json:"paths"`
	Outcomes    map[string]int     `json:"outcomes"`
	States      int                `json:"states"`
	Transitions int                `json:"transitions"`
	Forks       int                `json:"forks"`
	Pruned      int                `json:"infeasible_pruned"`
	Unknowns    int                `json:"solver_unknown_branches"`
	SchedSteps  int                `json:"sched_steps"`
	Steps       int64              `json:"ssa_instructions_executed"`
	Violations  []interp.Violation `json:"violations"`
	NViolations int                `json:"n_violations"`
	Reached     []string           `json:"reached"`
	Funcs       map[string]int     `json:"functions_encoded"`
	Stubs       map[string]string  `json:"stubs"`
	Queries     map[string]int     `json:"queries"`
	SolveSec    float64            `json:"solver_time_s"`
	WallSec     float64            `json:"wall_s"`
	Complete    bool               `json:"complete"`
	Incomplete  string             `json:"incomplete_reason,omitempty"`
	Aborts      map[string]int     `json:"aborts,omitempty"`
	Unwinds     map[string]int     `json:"unwind_incomplete,omitempty"`
	Samples     []string           `json:"samples"`
	InitErrs    []string           `json:"init_errs,omitempty"`
	Bounds      map[string]int64   `json:"bounds"`
	SolverErr   string             `json:"solver_last_error,omitempty"`
	MaxDepth    int                `json:"max_decision_depth"`
	OkModels    []map[string][]uint64 `json:"ok_models"`
}

type worker struct {
	cmd *exec.Cmd
	in  *bufio.Writer
	out *bufio.Reader
}

func startWorker() (*worker, error) {
	args := []string{"-mode", "worker"}
	flag.Visit(func(f *flag.Flag) {
		if f.Name != "mode" && f.Name != "out" && f.Name != "workers" {
			args = append(args, "-"+f.Name+"="+f.Value.String())
		}
	})
	cmd := exec.Command(os.Args[0], args...)
	cmd.Stderr = os.Stderr
	ip, _ := cmd.StdinPipe()
	op, _ := cmd.StdoutPipe()
	if err := cmd.Start(); err != nil {
		return nil, err
	}
	w := &worker{cmd: cmd, in: bufio.NewWriter(ip), out: bufio.NewReaderSize(op, 1<<20)}
	line, err := w.out.ReadBytes('\n')
	if err != nil || !strings.Contains(string(line), "ready") {
		return nil, fmt.Errorf("worker failed to start: %s", string(line))
	}
	return w, nil
}

func masterMain() {
	t0 := time.Now()
	res := &Result{Entry: *fEntry, Outcomes: map[string]int{}, Funcs: map[string]int{}, Queries: map[string]int{}, Aborts: map[string]int{}, Unwinds: map[string]int{},
		Bounds: map[string]int64{"loopcap": int64(*fLoopCap), "maxsteps": *fMaxSteps, "schedsteps": int64(*fSched), "maxpaths": int64(*fMaxPaths)}}
	n := *fWorkers
	var mu sync.Mutex
	cond := sync.NewCond(&mu)
	queue := [][]interp.Decision{{}}
	inflight := 0
	stop := false
	reached := map[string]bool{}
	vioSeen := map[string]int{}
	var wg sync.WaitGroup
	var startErr error
	nOk := 0
	rng := rand.New(rand.NewSource(*fSeed))
	deadline := time.Time{}
	if *fTimeout > 0 {
		deadline = t0.Add(*fTimeout)
	}
	for k := 0; k < n; k++ {
		wg.Add(1)
		go func(k int) {
			defer wg.Done()
			w, err := startWorker()
			if err != nil {
				mu.Lock()
				startErr = err
				stop = true
				cond.Broadcast()
				mu.Unlock()
				return
			}
			defer func() {
				// summary
				b, _ := json.Marshal(workReq{Done: true})
				w.in.Write(b)
				w.in.WriteByte('\n')
				w.in.Flush()
				line, err := w.out.ReadBytes('\n')
				if err == nil {
					var sum workerSummary
					if json.Unmarshal(line, &sum) == nil {
						mu.Lock()
						for f, c := range sum.Funcs {
							res.Funcs[f] = c
						}
						res.Queries["total"] += sum.Queries
						res.Queries["sat"] += sum.Sat
						res.Queries["unsat"] += sum.Unsat
						res.Queries["unknown"] += sum.Unknown
						res.Queries["errors"] += sum.Errors
						res.SolveSec += sum.SolveSec
						if len(sum.InitErrs) > 0 {
							res.InitErrs = sum.InitErrs
						}
						if sum.LastErr != "" {
							res.SolverErr = sum.LastErr
						}
						mu.Unlock()
					}
				}
				w.cmd.Wait()
			}()
			for {
				mu.Lock()
				for len(queue) == 0 && inflight > 0 && !stop {
					cond.Wait()
				}
				if stop || (len(queue) == 0 && inflight == 0) {
					cond.Broadcast()
					mu.Unlock()
					return
				}
				prefix := queue[len(queue)-1]
				queue = queue[:len(queue)-1]
				inflight++
				mu.Unlock()

				b, _ := json.Marshal(workReq{Prefix: prefix})
				w.in.Write(b)
				w.in.WriteByte('\n')
				w.in.Flush()
				line, err := w.out.ReadBytes('\n')
				var pr interp.PathResult
				if err != nil || json.Unmarshal(line, &pr) != nil {
					mu.Lock()
					res.Outcomes["worker-died"]++
					res.Incomplete = "a worker died: " + string(line)
					inflight--
					stop = true
					cond.Broadcast()
					mu.Unlock()
					return
				}
				if os.Getenv("SYMGO_VERBOSE") != "" {
					db, _ := json.Marshal(pr.Decisions)
					fmt.Fprintf(os.Stderr, "PATH %s %q steps=%d nv=%d %s\n", pr.Outcome, pr.Detail, pr.Steps, len(pr.Violations), db)
				}
				mu.Lock()
				inflight--
				res.Paths++
				res.Outcomes[pr.Outcome]++
				res.Forks += pr.Forks
				res.Pruned += pr.Pruned
				res.Unknowns += pr.Unknowns
				res.SchedSteps += pr.SchedSteps
				res.Steps += pr.Steps
				res.States += len(pr.Decisions) - len(prefix) + 1
				res.Transitions += len(pr.Decisions) - len(prefix) + 1
				if len(pr.Decisions) > res.MaxDepth {
					res.MaxDepth = len(pr.Decisions)
				}
				if pr.Outcome == "abort" {
					res.Aborts[pr.Detail]++
				}
				if pr.Outcome == "unwind" {
					res.Unwinds[pr.Detail]++
				}
				for _, t := range pr.Reached {
					reached[t] = true
				}
				for _, v := range pr.Violations {
					res.NViolations++
					key := v.Kind + "|" + v.Class + "|" + v.Msg
					vioSeen[key]++
					if vioSeen[key] <= 3 && len(res.Violations) < 200 {
						res.Violations = append(res.Violations, v)
					}
				}
				if pr.Outcome == "ok" && pr.Model != nil {
					nOk++
					if len(res.OkModels) < 256 {
						res.OkModels = append(res.OkModels, pr.Model)
					} else if j := rng.Intn(nOk); j < 256 {
						res.OkModels[j] = pr.Model
					}
				}
				if pr.Sample != "" && len(res.Samples) < 12 {
					res.Samples = append(res.Samples, fmt.Sprintf("[%s] decisions=%d %s", pr.Outcome, len(pr.Decisions), pr.Sample))
				}
				queue = append(queue, pr.Alts...)
				if res.Paths+inflight >= *fMaxPaths && len(queue) > 0 {
					res.Incomplete = fmt.Sprintf("path budget %d exhausted with %d prefixes pending", *fMaxPaths, len(queue))
					queue = nil
					stop = true
				}
				if !deadline.IsZero() && time.Now().After(deadline) && (len(queue) > 0 || inflight > 0) {
					res.Incomplete = fmt.Sprintf("time budget %s exhausted with %d prefixes pending", *fTimeout, len(queue))
					queue = nil
					stop = true
				}
				cond.Broadcast()
				mu.Unlock()
			}
		}(k)
	}
	wg.Wait()
	if startErr != nil {
		res.Incomplete = "worker start: " + startErr.Error()
	}
	for t := range reached {
		res.Reached = append(res.Reached, t)
	}
	sort.Strings(res.Reached)
	res.Complete = res.Incomplete == ""
	res.WallSec = time.Since(t0).Seconds()
	b, _ := json.MarshalIndent(res, "", " ")
	if *fOut != "" {
		os.WriteFile(*fOut, b, 0644)
	} else {
		os.Stdout.Write(b)
		fmt.Println()
	}
	fmt.Fprintf(os.Stderr, "symgo %s: paths=%d outcomes=%v violations=%d queries=%d wall=%.1fs complete=%v %s\n",
		*fEntry, res.Paths, res.Outcomes, res.NViolations, res.Queries["total"], res.WallSec, res.Complete, res.Incomplete)
}

func singleMain() {
	ld, err := load()
	if err != nil {
		fmt.Fprintln(os.Stderr, err)
		os.Exit(3)
	}
	solver, err := smt.NewSolver(*fSolver, "-in")
	if err != nil {
		fmt.Fprintln(os.Stderr, err)
		os.Exit(3)
	}
	if *fDumpSMT != "" {
		f, _ := os.Create(*fDumpSMT)
		defer f.Close()
		solver.Log = f
	}
	var prefix []interp.Decision
	if *fPrefix != "" {
		if err := json.Unmarshal([]byte(*fPrefix), &prefix); err != nil {
			fmt.Fprintln(os.Stderr, "bad prefix:", err)
			os.Exit(3)
		}
	}
	res := ld.eng.RunPath(ld.entry, prefix, solver, opts())
	out := map[string]interface{}{"result": res, "init_errs": ld.eng.InitErrs, "stubs": ld.stubs, "funcs": interp.FuncList(res.Funcs)}
	b, _ := json.MarshalIndent(out, "", " ")
	os.Stdout.Write(b)
	fmt.Println()
}

func main() {
	flag.Parse()
	switch *fMode {
	case "worker":
		workerMain()
	case "single":
		singleMain()
	case "instrument":
		instrumentMain()
	default:
		masterMain()
	}
}
