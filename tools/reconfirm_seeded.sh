#!/bin/bash
# usage: tools/reconfirm_seeded.sh <NAME>   e.g. C05-A ; re-confirms /verif/seeded/<NAME> against the current /repo HEAD
set -u
export GOFLAGS=-mod=mod GOPROXY=off GOSUMDB=off GOTOOLCHAIN=local
n="$1"; src=/verif/seeded/$n
mkdir -p /tmp/mut; wt=/tmp/mut/reconf-$n; log=/tmp/mut/reconf-$n.log; : > $log
git -C /repo worktree add -q --detach $wt HEAD >>$log 2>&1 || { echo "$n: worktree failed"; exit 2; }
trap "git -C /repo worktree remove --force $wt >>$log 2>&1" EXIT
cd $wt
place=$(python3 -c "import json;print(json.load(open('$src/meta.json'))['demo_package_dir'])")
demo=$place/zz_demo_test.go
git apply $src/patch.diff >>$log 2>&1 || { echo "$n: patch does not apply"; exit 1; }
go build ./... >>$log 2>&1 || { echo "$n: build fails with change"; exit 1; }
suite=pass; go test -vet=off -count=1 ./... >>$log 2>&1 || suite=FAIL
cp $src/demo_test.go $demo
with=pass; go test -vet=off -count=1 ./$place/ >>$log 2>&1 || with=FAIL
git apply -R $src/patch.diff >>$log 2>&1
without=pass; go test -vet=off -count=1 ./$place/ >>$log 2>&1 || without=FAIL
echo "$n: suite_with_change=$suite demo_with_change=$with demo_without_change=$without (HEAD $(git rev-parse --short HEAD))"
