#!/usr/bin/env python3
"""Regenerates /verif/MANIFEST.json from checks_config.CHECKS (claimed) and NOT_APPLICABLE."""
import json, sys, os
sys.path.insert(0, '/verif')
from checks_config import CHECKS, NOT_APPLICABLE
ids = [json.loads(l)['id'] for l in open('/verif/properties.jsonl')]
checks = []
for pid in ids:
    if pid not in CHECKS or not CHECKS[pid].get('claim'):
        continue
    c = CHECKS[pid]
    cl = c['claim']
    e = {"property_id": pid, "quick_cmd": "./check %s --tier quick" % pid, "evidence_file": "/verif/evidence/%s.json" % pid,
         "replay_cmd_template": "./check %s --replay {path}" % pid, "engine": "symgo",
         "level_claimed": {"category": "model_checking", "text": cl['text'], "design_ref": cl.get('design_ref', 'DESIGN.md §4')},
         "level_note": cl['note'], "technique": cl.get('technique', "bounded symbolic execution of the real Go SSA (symgo) + z3, counterexamples replayed natively")}
    if cl.get('thorough', True):
        e["thorough_cmd"] = "./check %s --tier thorough" % pid
    checks.append(e)
na = []
for pid in ids:
    if any(c['property_id'] == pid for c in checks):
        continue
    na.append({"property_id": pid, "reason": NOT_APPLICABLE.get(pid, "engine layer not reached yet (work in progress); see DESIGN.md §7")})
m = {"version": 1,
     "setup_cmd": "cd /verif/engine && GOFLAGS=-mod=mod GOPROXY=off GOSUMDB=off GOTOOLCHAIN=local go build -o /verif/bin/symgo ./cmd/symgo",
     "hooks": {"guard": "verif", "enable": "no source hooks: harnesses (/verif/harness) and the zzverif package are injected with go/packages Overlay (symbolic) and `go test -overlay` (native replay); /repo is never written",
               "baseline_off_cmd": "cd /repo && GOFLAGS=-mod=mod GOPROXY=off go test -vet=off -count=1 -timeout 25m ./...", "source_commits": [], "add_only": True},
     "engines": [{"name": "symgo", "path": "/verif/engine", "serves_properties": [c['property_id'] for c in checks],
                  "kind_free_text": "symbolic executor for Go SSA (fork of x/tools v0.29.0 go/ssa/interp: bit-vector scalars, symbolic-byte strings, path forking by re-execution, modelled goroutines/channels with sleep-set scheduler, reflect model over go/types) + z3 5.1.0 incremental; driver ./check replays counterexamples natively"}],
     "checks": checks, "not_applicable": na,
     "notes": "See DESIGN.md. Evidence level model_checking = bounded model checking of the real SSA; bounds are in each evidence file."}
json.dump(m, open('/verif/MANIFEST.json', 'w'), indent=1)
print(len(checks), "claimed;", len(na), "not applicable")
