#!/bin/bash
# runs every claimed check's quick tier and prints a summary (evidence is written by the checks)
cd /verif
for id in $(python3 -c "
import sys; sys.path.insert(0,'/verif')
from checks_config import CHECKS
print(' '.join(k for k,v in CHECKS.items() if v.get('claim')))"); do
  s=$(date +%s); ./check $id --tier ${1:-quick} > /tmp/q_$id.txt 2>/tmp/q_$id.err; rc=$?; e=$(date +%s)
  echo "$id rc=$rc $((e-s))s :: $(tail -1 /tmp/q_$id.txt | cut -c1-160)"
  grep -E "^(VIOLATION|UNCONFIRMED|INCONCLUSIVE)" /tmp/q_$id.txt | cut -c1-200
done
