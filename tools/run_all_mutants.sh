#!/bin/bash
# Applies every seeded change in turn to a scratch worktree of /repo (outside /repo and /verif),
# runs the quick check of the property it breaks against that worktree (VERIF_REPO), and writes
# /verif/seeded/DETECTION.md. A snapshot of /verif is used so that harnesses may be edited meanwhile.
# usage: tools/run_all_mutants.sh [glob]      e.g. tools/run_all_mutants.sh 'C0*-r2*'
export GOFLAGS=-mod=mod GOPROXY=off GOSUMDB=off GOTOOLCHAIN=local
pat="${1:-C*}"
wt=/tmp/repo_mut_$$; snap=/tmp/verif_snap_$$
git -C /repo worktree add -q --detach $wt HEAD || exit 2
if [ -n "${VERIF_SNAP_REV:-}" ]; then
  # checks as they stood at an earlier commit of /verif (baseline of a round of seeded changes)
  mkdir -p $snap && git -C /verif archive "$VERIF_SNAP_REV" | tar -x -C $snap
else
  rsync -a --exclude .git --exclude work --exclude replays /verif/ $snap/
fi
trap 'git -C /repo worktree remove --force $wt; rm -rf $snap /tmp/mm_out_$$.txt /tmp/mm_err_$$.txt' EXIT
out=/verif/seeded/DETECTION.md
if [ "$pat" = "C*" ]; then
  echo "# Seeded changes vs. checks (quick tier, $(date -u +%F), /repo HEAD $(git -C /repo rev-parse --short HEAD))" > $out
  echo >> $out
  echo "| seeded change | property check run | result | what the check reported |" >> $out
  echo "|---|---|---|---|" >> $out
fi
cd $snap
for d in /verif/seeded/$pat/; do
  n=$(basename $d); id=${n%%-*}
  git -C $wt checkout -q -- .
  git -C $wt apply $d/patch.diff || { echo "| $n | $id | patch does not apply | |" >> $out; echo "$n: patch does not apply"; continue; }
  VERIF_REPO=$wt timeout 1800 ./check $id --tier quick > /tmp/mm_out_$$.txt 2>/tmp/mm_err_$$.txt; rc=$?
  git -C $wt checkout -q -- .
  what=$(grep "violation:" /tmp/mm_err_$$.txt | head -1 | sed 's/.*violation: //; s/ | inputs=.*//' | cut -c1-160 | tr '|' '/')
  inc=$(grep -c "^INCONCLUSIVE" /tmp/mm_out_$$.txt)
  if [ $rc -eq 1 ]; then res="**caught** (exit 1, natively replayed)"; else res="not caught by $id (exit $rc, inconclusive=$inc)"; fi
  if [ "$pat" = "C*" ]; then echo "| $n | $id | $res | $what |" >> $out; fi
  echo "$n rc=$rc inc=$inc $what"
done
