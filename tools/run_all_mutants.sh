#!/bin/bash
# Applies every seeded change to /repo in turn, runs the quick check of the property it breaks, reverts.
# Writes /verif/seeded/DETECTION.md. /repo must be clean; nothing else may use /repo meanwhile.
cd /verif
out=/verif/seeded/DETECTION.md
echo "# Seeded changes vs. checks (quick tier, $(date -u +%F) , /repo HEAD $(git -C /repo rev-parse --short HEAD))" > $out
echo >> $out
echo "| seeded change | property check run | result | what the check reported |" >> $out
echo "|---|---|---|---|" >> $out
for d in /verif/seeded/C*/; do
  n=$(basename $d); id=${n%-*}
  if ! git -C /repo diff --quiet; then echo "/repo dirty"; exit 2; fi
  git -C /repo apply $d/patch.diff || { echo "| $n | $id | patch does not apply | |" >> $out; continue; }
  ./check $id --tier quick > /tmp/mm_out.txt 2>/tmp/mm_err.txt; rc=$?
  git -C /repo checkout -- .
  what=$(grep "violation:" /tmp/mm_err.txt | head -1 | sed 's/.*violation: //; s/ | inputs=.*//' | cut -c1-160 | tr '|' '/')
  inc=$(grep -c "^INCONCLUSIVE" /tmp/mm_out.txt)
  if [ $rc -eq 1 ]; then res="**caught** (exit 1, natively replayed)"; else res="not caught by $id (exit $rc, inconclusive=$inc)"; fi
  echo "| $n | $id | $res | $what |" >> $out
  echo "$n rc=$rc $what"
done
