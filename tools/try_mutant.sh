#!/bin/bash
# usage: tools/try_mutant.sh <patch.diff> <PROPERTY-ID> [tier]   -- applies the patch to /repo, runs the check, reverts.
set -u
patch="$1"; id="$2"; tier="${3:-quick}"
cd /repo || exit 2
if ! git diff --quiet; then echo "/repo not clean"; exit 2; fi
git apply "$patch" || { echo "patch does not apply"; exit 2; }
cd /verif && ./check "$id" --tier "$tier" > /tmp/mutant_out.txt 2>/tmp/mutant_err.txt; rc=$?
git -C /repo checkout -- . 
grep -E "^(VIOLATION|KNOWN-FINDING|INCONCLUSIVE|UNCONFIRMED)|^C[0-9]+ " /tmp/mutant_out.txt | cut -c1-300
echo "exit=$rc"
