#!/bin/bash
# usage: tools/confirm_mutant.sh <ID> <A|B>
# Confirms a sub-agent's change in a scratch worktree: builds, existing suite passes with the change,
# demo fails with it and passes without it. On success stores it under /verif/seeded/<ID>-<A|B>/.
set -u
export GOFLAGS=-mod=mod GOPROXY=off GOSUMDB=off GOTOOLCHAIN=local
id="$1"; v="$2"
src=${MUTROOT:-/tmp/mut}/out/$id
wt=${MUTROOT:-/tmp/mut}/confirm-$id-$v
log=${MUTROOT:-/tmp/mut}/confirm-$id-$v.log
: > $log
[ -f $src/$v.patch.diff ] || { echo "$id-$v: no patch"; exit 2; }
git -C /repo worktree add -q --detach $wt HEAD >>$log 2>&1 || { echo "$id-$v: worktree failed"; exit 2; }
cleanup() { git -C /repo worktree remove --force $wt >>$log 2>&1; }
trap cleanup EXIT
cd $wt
place=$(grep -m1 -o 'PLACE IN: *[^ ]*' $src/${v}_demo_test.go | sed 's/PLACE IN: *//')
[ -n "$place" ] || place="."
place=${place%/}
demo=$place/zz_demo_${id}_${v}_test.go
git apply $src/$v.patch.diff >>$log 2>&1 || { echo "$id-$v: patch does not apply"; exit 1; }
go build ./... >>$log 2>&1 || { echo "$id-$v: build fails with change"; exit 1; }
suite=pass
go test -vet=off -count=1 ./... >>$log 2>&1 || suite=FAIL
cp $src/${v}_demo_test.go $demo
with=pass
go test -vet=off -count=1 ./$place/ -run . >>$log 2>&1 || with=FAIL
git apply -R $src/$v.patch.diff >>$log 2>&1
without=pass
go test -vet=off -count=1 ./$place/ -run . >>$log 2>&1 || without=FAIL
echo "$id-$v: suite_with_change=$suite demo_with_change=$with demo_without_change=$without place=$place"
if [ $suite = pass ] && [ $with = FAIL ] && [ $without = pass ]; then
  d=/verif/seeded/$id-${SUFFIX:-}$v; mkdir -p $d
  cp $src/$v.patch.diff $d/patch.diff
  cp $src/${v}_demo_test.go $d/demo_test.go
  cp $src/$v.meta.txt $d/agent_meta.txt
  python3 - "$id" "$v" "$place" <<'PY'
import json,sys
id,v,place=sys.argv[1:4]
meta=open(''+__import__("os").environ.get("MUTROOT","/tmp/mut")+'/out/%s/%s.meta.txt'%(id,v)).read()
json.dump({"property":id,"variant":v,"demo_package_dir":place,
 "confirmed":{"builds_with_change":True,"existing_suite_passes_with_change":True,"demo_fails_with_change":True,"demo_passes_without_change":True},
 "what_i_ran":["git worktree add (scratch, outside /repo and /verif)","git apply patch.diff","go build ./...","go test -vet=off -count=1 ./...","go test ./%s/ with demo_test.go copied in"%place,"git apply -R patch.diff","go test ./%s/ again"%place],
 "needs_to_manifest":"see agent_meta.txt (written by the sub-agent that produced the change)",
 "summary":meta[:1500]}, open('/verif/seeded/%s-%s%s/meta.json'%(id,__import__("os").environ.get("SUFFIX",""),v),'w'), indent=1)
PY
  exit 0
fi
exit 1
