package tagformat

// C16: a struct tag that does not parse (it compiles: Go does not check tag syntax) makes the tag
// reformatter report an error, not drop the field and panic later.

import (
	"reflect"

	"github.com/vimeo/dials/common"
	"github.com/vimeo/dials/ptrify"
	"github.com/vimeo/dials/tagformat/caseconversion"
	"github.com/vimeo/dials/transform"
	"github.com/vimeo/dials/zzverif"
)

type c16bad struct {
	First string
	A     int `dials:"a" malformed`
	B     string
}

func HarnessC16BadTag() {
	t := ptrify.Pointerify(reflect.TypeOf(c16bad{}), reflect.Value{})
	tfm := transform.NewTransformer(t, NewTagReformattingMangler(common.DialsTagName, caseconversion.DecodeGoTags, caseconversion.EncodeLowerSnakeCase))
	val, err := tfm.Translate()
	if err != nil {
		zzverif.Reached("c16-badtag-error")
		return
	}
	// no error: then every field must have made it and the round trip must work
	zzverif.Assert(val.NumField() == 3, "C16 the tag reformatter silently dropped a field whose struct tag does not parse")
	if zzverif.Bool("setB") && val.NumField() == 3 {
		x := "b"
		val.Field(2).Set(reflect.ValueOf(&x))
	}
	out, rerr := tfm.ReverseTranslate(val)
	if rerr == nil {
		zzverif.Assert(out.Type() == t, "C16 the reversed value does not have the original type")
	}
	zzverif.Reached("c16-badtag-end")
}
