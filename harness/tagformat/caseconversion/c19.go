package caseconversion

// C19: matched encoders and decoders are inverse; Go-identifier decoding keeps word boundaries.

import (
	"strconv"

	"github.com/vimeo/dials/zzverif"
	"golang.org/x/text/cases"
	"golang.org/x/text/language"
)

// Contract of cases.Title(language.English, cases.NoLower).String(w) for ASCII words: the first
// byte is upper-cased when it is a-z, everything else is unchanged. (x/text is not encoded.)
//
//verif:stub (golang.org/x/text/cases.Caser).String
func stubCaserString(c cases.Caser, s string) string {
	if len(s) == 0 {
		return s
	}
	b := []byte(s)
	if b[0] >= 'a' && b[0] <= 'z' {
		b[0] -= 'a' - 'A'
	}
	return string(b)
}

//verif:stub golang.org/x/text/cases.Title
func stubCasesTitle(t language.Tag, opts ...cases.Option) cases.Caser {
	return cases.Caser{}
}

type c19scheme struct {
	name string
	enc  EncodeCasingFunc
	dec  DecodeCasingFunc
}

func c19schemes() []c19scheme {
	return []c19scheme{
		{"UpperCamelCase", EncodeUpperCamelCase, DecodeUpperCamelCase},
		{"lowerCamelCase", EncodeLowerCamelCase, DecodeLowerCamelCase},
		{"lower_snake_case", EncodeLowerSnakeCase, DecodeLowerSnakeCase},
		{"UPPER_SNAKE_CASE", EncodeUpperSnakeCase, DecodeUpperSnakeCase},
		{"kebab-case", EncodeKebabCase, DecodeKebabCase},
		{"case_Preserving_snake", EncodeCasePreservingSnakeCase, DecodeCasePreservingSnakeCase},
	}
}

// c19word returns a symbolic word [a-z][a-z0-9]{n-1}.
func c19word(name string, n int) string {
	w := zzverif.Bytes(name, n)
	for i := 0; i < n; i++ {
		c := w[i]
		lower := zzverif.InRange(c, 'a', 'z')
		if i == 0 {
			zzverif.Assume(lower)
		} else {
			zzverif.Assume(zzverif.Or(lower, zzverif.InRange(c, '0', '9')))
		}
	}
	return w
}

func c19inverse(maxWords, maxLen, maxTotal int) {
	schemes := c19schemes()
	sc := schemes[zzverif.Choose("scheme", len(schemes))]
	nw := 1 + zzverif.Choose("nwords", maxWords)
	words := make(DecodedIdentifier, nw)
	total := 0
	for i := 0; i < nw; i++ {
		l := 1 + zzverif.Choose("len"+strconv.Itoa(i), maxLen)
		total += l
		words[i] = c19word("w"+strconv.Itoa(i), l)
	}
	zzverif.Assume(total <= maxTotal)
	enc := sc.enc(words)
	dec, err := sc.dec(enc)
	zzverif.Observe("scheme", sc.name)
	zzverif.Assert(err == nil, "C19 "+sc.name+": decoding an encoded word list failed")
	if err != nil {
		return
	}
	zzverif.Assert(len(dec) == len(words), "C19 "+sc.name+": decode(encode(words)) has a different number of words")
	if len(dec) != len(words) {
		return
	}
	for i := range words {
		zzverif.Assert(zzverif.StrEq(dec[i], words[i]), "C19 "+sc.name+": decode(encode(words)) changed a word")
	}
	zzverif.Reached("c19-inverse-end")
}

// HarnessC19InverseQuick: W<=3 words, each <=3 bytes, total <=5 bytes.
func HarnessC19InverseQuick() { c19inverse(3, 3, 5) }

// HarnessC19InverseThorough: W<=3 words, each <=4 bytes, total <=8 bytes.
func HarnessC19InverseThorough() { c19inverse(3, 4, 8) }

// ---------------------------------------------------------------------------------------------
// Go identifiers

// c19part is one generating part of an identifier.
type c19part struct {
	text     string // as it appears in the identifier
	want     string // lower-cased
	initial  bool   // taken from the initialisms list
	wordLen  int
}

func c19capword(name string, n int) (string, string) {
	w := zzverif.Bytes(name, n)
	zzverif.Assume(zzverif.InRange(w[0], 'A', 'Z'))
	lb := make([]byte, n)
	lb[0] = w[0] + ('a' - 'A')
	for i := 1; i < n; i++ {
		if i == n-1 && n >= 3 {
			// words are [a-z][a-z0-9]*: the last character may be a digit (Sha2, Base64, ...)
			zzverif.Assume(zzverif.Or(zzverif.InRange(w[i], 'a', 'z'), zzverif.InRange(w[i], '0', '9')))
		} else {
			zzverif.Assume(zzverif.InRange(w[i], 'a', 'z'))
		}
		lb[i] = w[i]
	}
	return w, string(lb)
}

func hasPrefix(s, p string) bool { return len(s) >= len(p) && s[:len(p)] == p }

// c19PrefixAmbiguous: inside a run of consecutive initialism parts, at the start of some part a
// different initialism of the list is also a prefix of the remaining run text.
func c19PrefixAmbiguous(parts []c19part) bool {
	for i := 0; i < len(parts); i++ {
		if !parts[i].initial {
			continue
		}
		rest := ""
		for j := i; j < len(parts) && parts[j].initial; j++ {
			rest += parts[j].text
		}
		for _, q := range commonInitialisms {
			if q != parts[i].text && hasPrefix(rest, q) {
				return true
			}
		}
	}
	return false
}

// c19TwoLetterTail: the last part is a two-letter capitalised word directly after an initialism.
func c19TwoLetterTail(parts []c19part) bool {
	n := len(parts)
	return n >= 2 && !parts[n-1].initial && parts[n-1].wordLen == 2 && parts[n-2].initial
}

// c19DigitTail: the identifier ends with an initialism that ends in a digit (UTF8) directly
// after another initialism, so the all-caps run ends in a digit at end of string.
func c19DigitTail(parts []c19part) bool {
	n := len(parts)
	if n < 2 || !parts[n-1].initial || !parts[n-2].initial {
		return false
	}
	t := parts[n-1].text
	return t[len(t)-1] >= '0' && t[len(t)-1] <= '9'
}

func c19goident(maxParts, maxWordLen int, initialisms []string) {
	np := 1 + zzverif.Choose("nparts", maxParts)
	parts := make([]c19part, np)
	name := ""
	for i := 0; i < np; i++ {
		k := zzverif.Choose("kind"+strconv.Itoa(i), len(initialisms)+maxWordLen-1)
		if k < len(initialisms) {
			in := initialisms[k]
			lb := []byte(in)
			for j := range lb {
				if lb[j] >= 'A' && lb[j] <= 'Z' {
					lb[j] += 'a' - 'A'
				}
			}
			parts[i] = c19part{text: in, want: string(lb), initial: true}
		} else {
			n := 2 + (k - len(initialisms))
			w, lw := c19capword("p"+strconv.Itoa(i), n)
			parts[i] = c19part{text: w, want: lw, wordLen: n}
		}
		name += parts[i].text
	}
	dec, err := DecodeGoCamelCase(name)
	zzverif.Assert(err == nil, "C19 DecodeGoCamelCase rejected an identifier made of capitalised words and initialisms")
	if err != nil {
		return
	}
	ok := len(dec) == np
	if ok {
		for i := range parts {
			ok = zzverif.And(ok, zzverif.StrEq(dec[i], parts[i].want))
		}
	}
	amb := c19PrefixAmbiguous(parts)
	tail := c19TwoLetterTail(parts)
	switch {
	case amb:
		zzverif.AssertUnlessKnown(ok, "C19 DecodeGoCamelCase lost a word boundary", "c19-initialism-greedy", true)
	case tail:
		zzverif.AssertUnlessKnown(ok, "C19 DecodeGoCamelCase lost a word boundary", "c19-two-letter-tail", true)
	case c19DigitTail(parts):
		zzverif.AssertUnlessKnown(ok, "C19 DecodeGoCamelCase lost a word boundary", "c19-digit-tail", true)
	default:
		zzverif.Assert(ok, "C19 DecodeGoCamelCase lost a word boundary")
		if np == 1 {
			// the result belongs to the caller: whatever it does with it, decoding the same
			// identifier again gives the same words
			dec[0] = "scribbled"
			dec2, err2 := DecodeGoCamelCase(name)
			zzverif.Assert(err2 == nil && len(dec2) == 1 && zzverif.StrEq(dec2[0], parts[0].want), "C19 DecodeGoCamelCase: decoding the same identifier again gave different words after the caller modified the first result")
		}
	}
	zzverif.Reached("c19-goident-end")
}

// HarnessC19GoIdentQuick: up to 2 parts over the full initialisms list, words of 2..3 letters.
func HarnessC19GoIdentQuick() { c19goident(2, 3, commonInitialisms) }

// HarnessC19GoIdentThorough: up to 3 parts, words of 2..4 letters.
func HarnessC19GoIdentThorough() { c19goident(3, 4, commonInitialisms) }

// HarnessC19GoIdent3Small: three parts over a small initialism list that includes the one with a
// digit (runs like ACL+UTF8 followed by a word), words of 2..3 letters.
func HarnessC19GoIdent3Small() { c19goident(3, 3, []string{"ACL", "UTF8", "ID", "URL"}) }
