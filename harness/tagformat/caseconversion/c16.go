package caseconversion

import "github.com/vimeo/dials/zzverif"

// C16 (text half): no identifier text makes a decoder or encoder panic or hang.
func c16decode(maxLen int) {
	n := zzverif.Choose("len", maxLen+1)
	s := zzverif.Bytes("s", n)
	var words DecodedIdentifier
	var err error
	switch zzverif.Choose("fn", 8) {
	case 0:
		words, err = DecodeUpperCamelCase(s)
	case 1:
		words, err = DecodeLowerCamelCase(s)
	case 2:
		words, err = DecodeGoCamelCase(s)
	case 3:
		words, err = DecodeGoTags(s)
	case 4:
		words, err = DecodeLowerSnakeCase(s)
	case 5:
		words, err = DecodeKebabCase(s)
	case 6:
		words, err = DecodeUpperSnakeCase(s)
	case 7:
		words, err = DecodeCasePreservingSnakeCase(s)
	}
	_, _ = words, err
	zzverif.Reached("c16-decode-end")
}

// c16encode: every encoder on word lists with arbitrary bytes (including empty words).
func c16encode(maxWords, maxLen int) {
	nw := zzverif.Choose("nwords", maxWords+1)
	words := make(DecodedIdentifier, nw)
	for i := range words {
		n := zzverif.Choose("len"+string(rune('0'+i)), maxLen+1)
		words[i] = zzverif.Bytes("w"+string(rune('0'+i)), n)
	}
	switch zzverif.Choose("fn", 6) {
	case 0:
		_ = EncodeUpperCamelCase(words)
	case 1:
		_ = EncodeLowerCamelCase(words)
	case 2:
		_ = EncodeKebabCase(words)
	case 3:
		_ = EncodeLowerSnakeCase(words)
	case 4:
		_ = EncodeUpperSnakeCase(words)
	case 5:
		_ = EncodeCasePreservingSnakeCase(words)
	}
	zzverif.Reached("c16-encode-end")
}

// HarnessC16EncodeQuick: <=2 words of <=1 arbitrary byte each.
func HarnessC16EncodeQuick() { c16encode(2, 1) }

// HarnessC16EncodeThorough: <=2 words of <=2 arbitrary bytes each.
func HarnessC16EncodeThorough() { c16encode(2, 2) }

// HarnessC16DecodeQuick: every byte string of length <= 2 (including invalid UTF-8).
func HarnessC16DecodeQuick() { c16decode(2) }

// HarnessC16DecodeThorough: every byte string of length <= 3.
func HarnessC16DecodeThorough() { c16decode(3) }
