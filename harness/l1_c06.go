package dials

import (
	"context"

	"github.com/vimeo/dials/zzverif"
)

// c06scenario: one watching source installs versions 1..k (A == version == serial), a registrar
// registers a callback with a fresh / stale / zero serial at an arbitrary moment and optionally
// unregisters it again.
func c06scenario(k int, withUnregister bool, slow bool) { c06scenarioX(k, withUnregister, slow, true, false) }

// global: Params carries OnNewConfig/OnWatchedError; shutdown: the only watcher calls Done at an
// arbitrary moment (reports and unregistrations may then fail; only the safety clauses are
// asserted).
func c06scenarioX(k int, withUnregister bool, slow bool, global bool, shutdown bool) {
	verifyLog = nil
	log := &cbLog{}
	def := hcfg{}
	src := &hwsrc{hsrc{name: "s0", init: hval{setA: true, a: 0}}}
	ctx, cancel := context.WithCancel(context.Background())
	defer cancel()
	p := log.params()
	if !global {
		p = Params[hcfg]{}
	}
	d, err := p.Config(ctx, &def, src)
	if err != nil {
		zzverif.Fail("C04 Config failed on a valid stack")
		return
	}
	cfg0, ser0 := d.ViewVersion()
	shutDone := make(chan struct{})
	close(shutDone)
	rctx := ctx
	if shutdown {
		// a report issued after the watcher's own Done may block until its context ends: that
		// context ends once nothing else can move
		var rcancel context.CancelFunc
		rctx, rcancel = context.WithCancel(ctx)
		go func() {
			zzverif.Daemon()
			zzverif.Quiesce()
			rcancel()
		}()
	}
	rejectFirst := !shutdown && !slow && zzverif.Choose("rejectFirst", 2) == 1
	repDone := make(chan struct{})
	startRep := make(chan struct{})
	if !shutdown {
		close(startRep)
	}
	go func() {
		defer close(repDone)
		<-startRep
		if shutdown {
			defer src.wa.Done(rctx) // the watcher finishes after its last report
		}
		if rejectFirst {
			// a rejected update installs nothing and consumes no version number
			_ = src.wa.ReportNewValue(rctx, mkValue(src.t, hval{setA: true, a: 50, setBad: true, bad: true}))
		}
		for i := 1; i <= k; i++ {
			if e := src.wa.ReportNewValue(rctx, mkValue(src.t, hval{setA: true, a: int64(i)})); e != nil {
				if shutdown {
					return
				}
				zzverif.Fail("C08 ReportNewValue failed with a live context")
			}
		}
	}()
	mode := 0
	if !shutdown {
		mode = zzverif.Choose("serial", 3) // 0 fresh, 1 stale (initial), 2 zero
	}
	var regVersion int64 = -1
	var regCfg *hcfg
	var calls []struct{ old, new *hcfg }
	unregistered := false
	cb := func(ctx context.Context, old, new *hcfg) {
		log.enter("registered callback")
		zzverif.Assert(!unregistered, "C06 a callback was invoked after its unregister function returned true")
		if regVersion >= 0 {
			zzverif.Assert(new.A > regVersion, "C06 a callback received a config that is not newer than the version it registered with")
		}
		if n := len(calls); n > 0 {
			zzverif.Assert(new.A > calls[n-1].new.A, "C06 a callback received a version older than or equal to one it already received")
		}
		first := len(calls) == 0
		catchUp := first && mode != 2 && old == regCfg && new.A != old.A+1
		if !catchUp {
			zzverif.Assert(old.A+1 == new.A, "C06 in an ordinary call the old config is not the immediate predecessor of the new one")
		}
		calls = append(calls, struct{ old, new *hcfg }{old, new})
		if slow {
			zzverif.Yield("slow-callback")
		}
		log.exit()
	}
	cfg, ser := d.ViewVersion()
	var unreg UnregisterCBFunc
	switch mode {
	case 0:
		regVersion, regCfg = cfg.A, cfg
		unreg = d.RegisterCallback(ctx, ser, cb)
	case 1:
		regVersion, regCfg = cfg0.A, cfg0
		unreg = d.RegisterCallback(ctx, ser0, cb)
	default:
		unreg = d.RegisterCallback(ctx, CfgSerial[hcfg]{}, cb)
	}
	zzverif.Assert(unreg != nil, "C08 RegisterCallback returned nil although its context is live")
	if shutdown {
		close(startRep) // registration is in place before the first report
	}
	if unreg == nil {
		<-repDone
		<-shutDone
		return
	}
	if withUnregister && (shutdown || zzverif.Choose("unregister", 2) == 1) {
		if unreg(ctx) {
			unregistered = true
		} else if !shutdown {
			zzverif.Fail("C08 unregister failed although its context is live")
		}
	}
	<-repDone
	<-shutDone
	zzverif.Quiesce()
	if shutdown {
		// prefix of the installation order, nothing else is promised once the watcher is done
		for i, n := range log.newCfg {
			zzverif.Assert(n.new.A == int64(i+1) && n.old.A == int64(i), "C06 OnNewConfig calls are not in installation order with (predecessor, new)")
		}
		zzverif.Reached("c06-shutdown-end")
		return
	}
	if !global {
		log.newCfg = nil
		for i := 1; i <= k; i++ {
			log.newCfg = append(log.newCfg, struct{ old, new *hcfg }{&hcfg{A: int64(i - 1)}, &hcfg{A: int64(i)}})
		}
	}
	// no drops here (k << 64): the global callback saw every installed version in order
	zzverif.Assert(len(log.newCfg) == k, "C06 OnNewConfig was not called once per installed version")
	for i, n := range log.newCfg {
		zzverif.Assert(n.new.A == int64(i+1) && n.old.A == int64(i), "C06 OnNewConfig calls are not in installation order with (predecessor, new)")
	}
	if !unregistered && mode != 2 && int64(k) > regVersion {
		// every version above the registration point is delivered: the last call carries version k
		zzverif.Assert(len(calls) > 0 && calls[len(calls)-1].new.A == int64(k), "C06 a callback that keeps up missed the latest installed version")
		// no gaps after the first call
		for i := 1; i < len(calls); i++ {
			zzverif.Assert(calls[i].new.A == calls[i-1].new.A+1, "C06 an installed version above the registration point was skipped")
		}
		if len(calls) > 0 {
			c0 := calls[0]
			if c0.old == regCfg && c0.new.A != regVersion+1 {
				// catch-up call: registered config, last announced version
				zzverif.Assert(c0.new.A > regVersion+1, "C06 spurious catch-up call")
			} else {
				zzverif.Assert(c0.new.A == regVersion+1, "C06 the first ordinary call skipped a version above the registration point")
			}
		}
	}
	zzverif.Reached("c06-end")
}

// HarnessC06Quick: 2 versions, registration racing with installs, no unregister.
func HarnessC06Quick() { c06scenario(2, false, false) }

// HarnessC06Unregister: 2 versions, optional unregister.
func HarnessC06Unregister() { c06scenario(2, true, false) }

// HarnessC06Thorough: 3 versions, unregister, slow callbacks.
func HarnessC06Thorough() { c06scenario(3, true, true) }

// HarnessC06NoGlobal: no global callbacks configured; the registered callback is the only
// listener (catch-up and no-skip clauses must hold all the same).
func HarnessC06NoGlobal() { c06scenarioX(2, false, false, false, false) }

// HarnessC06UnregisterShutdown: a slow callback, an unregistration and the watcher's Done race:
// whenever unregister returned true the callback is not invoked again.
func HarnessC06UnregisterShutdown() { c06scenarioX(2, true, false, false, true) }

// HarnessC06DrainOnCancel: versions whose announcements are already queued when the Config
// context is cancelled are still delivered (a slow callback is running meanwhile): cancelling is
// not a reason to skip an installed version that the callback goroutine has been handed.
func HarnessC06DrainOnCancel() {
	verifyLog = nil
	log := &cbLog{}
	def := hcfg{}
	src := &hwsrc{hsrc{name: "s0", init: hval{setA: true, a: 0}}}
	ctx, cancel := context.WithCancel(context.Background())
	defer cancel()
	p := log.params()
	p.DelayInitialVerification = true // makes EnableVerification a round trip through the monitor
	d, err := p.Config(ctx, &def, src)
	if err != nil {
		zzverif.Fail("C04 Config failed on a valid stack")
		return
	}
	// verification on (so that a report can be rejected); the call is also a round trip through
	// the monitor
	_, _, eerr := d.EnableVerification(ctx)
	zzverif.Assert(eerr == nil, "C09 EnableVerification failed on a valid config")
	const k = 2
	for i := 1; i <= k; i++ {
		e := src.wa.BlockingReportNewValue(ctx, mkValue(src.t, hval{setA: true, a: int64(i)}))
		zzverif.Assert(e == nil, "C08 a blocking report failed with a live context")
	}
	rej := src.wa.BlockingReportNewValue(ctx, mkValue(src.t, hval{setA: true, a: 9, setBad: true, bad: true}))
	zzverif.Assert(rej != nil, "C04 an invalid update was accepted")
	// barrier: when this returns the monitor has finished the iterations that installed version k
	// and rejected the last report, so their announcements are in the callback queue
	_, _, eerr = d.EnableVerification(ctx)
	zzverif.Assert(eerr == nil, "C09 a repeated EnableVerification failed")
	if zzverif.Choose("shutdown", 2) == 1 {
		src.wa.Done(ctx)
	} else {
		cancel()
	}
	zzverif.Quiesce()
	zzverif.Assert(len(log.newCfg) == k, "C06 an installed version whose announcement was already queued was skipped when the library shut down")
	for i, n := range log.newCfg {
		zzverif.Assert(n.new.A == int64(i+1) && n.old.A == int64(i), "C06 OnNewConfig calls are not in installation order with (predecessor, new)")
	}
	zzverif.Assert(len(log.watched) == 1, "C04 OnWatchedError for a rejected update that was already queued was dropped when the library shut down")
	zzverif.Reached("c06-drain-end")
}

// HarnessC06AfterOverflow: the documented drop-on-overflow happens once (a callback is stuck
// while 67 versions are installed), then callbacks keep up again. A registration with a serial
// that is one version stale must still get its catch-up call: the callback goroutine's idea of
// the last announced version must not lag behind because announcements were dropped earlier.
func HarnessC06AfterOverflow() {
	verifyLog = nil
	def := hcfg{}
	src := &hwsrc{hsrc{name: "s0", init: hval{setA: true, a: 0}}}
	ctx, cancel := context.WithCancel(context.Background())
	defer cancel()
	block := make(chan struct{})
	first := true
	p := Params[hcfg]{OnNewConfig: func(context.Context, *hcfg, *hcfg) {
		if first {
			first = false
			<-block
		}
	}}
	d, err := p.Config(ctx, &def, src)
	if err != nil {
		zzverif.Fail("C04 Config failed on a valid stack")
		return
	}
	install := func(i int) {
		e := src.wa.BlockingReportNewValue(ctx, mkValue(src.t, hval{setA: true, a: int64(i)}))
		zzverif.Assert(e == nil && d.View().A == int64(i), "C08 a blocked callback stopped new configs from being installed")
		zzverif.Quiesce() // one version at a time: the announcement is queued (or dropped) before the next report
	}
	for i := 1; i <= 67; i++ {
		install(i)
	}
	close(block)
	zzverif.Quiesce()
	install(68)
	zzverif.Quiesce()
	cfg68, ser68 := d.ViewVersion()
	install(69)
	zzverif.Quiesce()
	var calls []struct{ old, new *hcfg }
	u := d.RegisterCallback(ctx, ser68, func(_ context.Context, old, new *hcfg) {
		calls = append(calls, struct{ old, new *hcfg }{old, new})
	})
	zzverif.Assert(u != nil, "C08 RegisterCallback returned nil with a live context")
	zzverif.Quiesce()
	zzverif.Assert(len(calls) == 1 && calls[0].old == cfg68 && calls[0].new.A == 69, "C06 a registration with a stale serial got no catch-up call although a newer version had been announced (after an earlier overflow)")
	install(70)
	zzverif.Quiesce()
	zzverif.Assert(len(calls) == 2 && calls[1].new.A == 70 && calls[1].old.A == 69, "C06 after the catch-up the next version was not delivered with its predecessor")
	zzverif.Reached("c06-overflow-end")
}

// HarnessC06SameContent: a re-report whose stacked content equals the current config is still a
// new version: it is announced like any other, and the next announcement's old config is the
// version announced before it.
func HarnessC06SameContent() {
	verifyLog = nil
	log := &cbLog{}
	def := hcfg{}
	src := &hwsrc{hsrc{name: "s0", init: hval{setA: true, a: 0}}}
	ctx, cancel := context.WithCancel(context.Background())
	defer cancel()
	p := log.params()
	d, err := p.Config(ctx, &def, src)
	if err != nil {
		zzverif.Fail("C04 Config failed on a valid stack")
		return
	}
	_, ser := d.ViewVersion()
	var calls []struct{ old, new *hcfg }
	u := d.RegisterCallback(ctx, ser, func(_ context.Context, old, new *hcfg) {
		calls = append(calls, struct{ old, new *hcfg }{old, new})
	})
	zzverif.Assert(u != nil, "C08 RegisterCallback returned nil with a live context")
	var vers []*hcfg
	for _, a := range []int64{1, 1, 2} {
		e := src.wa.BlockingReportNewValue(ctx, mkValue(src.t, hval{setA: true, a: a}))
		zzverif.Assert(e == nil, "C08 a blocking report failed with a live context")
		vers = append(vers, d.View())
	}
	zzverif.Quiesce()
	zzverif.Assert(vers[0] != vers[1], "C05 a re-report did not install a new version")
	zzverif.Assert(len(log.newCfg) == 3 && len(calls) == 3, "C06 an installed version (a re-report with the same content) was not announced")
	if len(calls) == 3 {
		zzverif.Assert(calls[1].old == vers[0] && calls[1].new == vers[1] && calls[2].old == vers[1] && calls[2].new == vers[2], "C06 in an ordinary call the old config is not the immediate predecessor of the new one")
	}
	zzverif.Reached("c06-same-end")
}
