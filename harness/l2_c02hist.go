package dials

import (
	"context"
	"reflect"
	"strconv"

	"github.com/vimeo/dials/zzverif"
)

type c02cfg struct {
	M map[string]int8
	S []int16
	P *c01sub
	N c01sub
	X int8
	// only the defaults ever set this one
	Keep map[string]int8
	// an empty (non-nil) map held in an interface, also only set by the defaults
	Any interface{}
}

type c02watch struct {
	c01static
	t  *Type
	wa WatchArgs
}

func (s *c02watch) Watch(ctx context.Context, t *Type, wa WatchArgs) error {
	s.t = t
	s.wa = wa
	return nil
}

// c02history: a static source (maps, slices) below a watching source that re-reports k times.
// Every version equals a fresh stack of the defaults and the latest values, and shares no memory
// with the defaults, the source values or any other version.
func c02history(k int) {
	mk := func() *c02cfg {
		return &c02cfg{M: map[string]int8{"d": 1}, S: make([]int16, 1, 3), P: &c01sub{V: 5, W: "p"}, X: 3, Keep: map[string]int8{"k": 1}, Any: map[string]int8{}}
	}
	def, def0 := mk(), mk()
	ot := reflect.TypeOf(def).Elem()
	var layer0 func(ov reflect.Value) // re-applies the static layer to a reference value
	s0 := &c01static{}
	s0.build = func(t *Type) reflect.Value {
		pv := reflect.New(t.Type()).Elem()
		m := map[string]int8{"a": zzverif.Int8("s0_m")}
		sl := []int16{zzverif.Int16("s0_s0"), 7}
		pv.FieldByName("M").Set(reflect.ValueOf(m))
		pv.FieldByName("S").Set(reflect.ValueOf(sl))
		layer0 = func(ov reflect.Value) {
			ov.FieldByName("M").Set(c01copy(reflect.ValueOf(m)))
			ov.FieldByName("S").Set(c01copy(reflect.ValueOf(sl)))
		}
		return pv
	}
	w := &c02watch{}
	// the watcher's initial value may set the nested leaf (and later withdraw it)
	setP0 := zzverif.Bool("w_init_setP")
	w.build = func(t *Type) reflect.Value {
		pv := reflect.New(t.Type()).Elem()
		if setP0 {
			pf := pv.FieldByName("P")
			pf.Set(reflect.New(pf.Type().Elem()))
			vv := int16(41)
			pf.Elem().FieldByName("V").Set(reflect.ValueOf(&vv))
		}
		return pv
	}
	ctx, cancel := context.WithCancel(context.Background())
	defer cancel()
	d, err := Config(ctx, def, s0, w)
	zzverif.Assert(err == nil, "C02 Config failed")
	if err != nil {
		return
	}
	var versions []reflect.Value
	var srcVals []reflect.Value
	check := func(tag string, wl func(ov reflect.Value)) {
		got := reflect.ValueOf(d.View()).Elem()
		ref := reflect.ValueOf(mk()).Elem()
		layer0(ref)
		if wl != nil {
			wl(ref)
		}
		zzverif.Assert(c01eq(got, ref), "C05/C01 "+tag+": the view differs from a fresh stack of the defaults and the latest source values")
		gr := map[uintptr]bool{}
		c01refs(got, gr)
		dr := map[uintptr]bool{}
		c01refs(reflect.ValueOf(def).Elem(), dr)
		zzverif.Assert(c01disjoint(gr, dr), "C02 "+tag+": a config version shares memory with the caller's defaults")
		sr := map[uintptr]bool{}
		c01refs(s0.val, sr)
		for _, sv := range srcVals {
			c01refs(sv, sr)
		}
		zzverif.Assert(c01disjoint(gr, sr), "C02 "+tag+": a config version shares memory with a source's value")
		for i, old := range versions {
			or := map[uintptr]bool{}
			c01refs(old, or)
			zzverif.Assert(c01disjoint(gr, or), "C02 "+tag+": two config versions share memory (version "+strconv.Itoa(i)+")")
		}
		versions = append(versions, got)
		zzverif.Assert(c01eq(reflect.ValueOf(def).Elem(), reflect.ValueOf(def0).Elem()), "C02 "+tag+": stacking modified the caller's defaults")
		// the consumer owns what it was handed: whatever it writes through this version must
		// not show up in any later one
		cur := d.View()
		cur.M["scribble"] = 9
		if len(cur.S) > 0 {
			cur.S[0] = 99
		}
		if cur.P != nil {
			cur.P.V = 77
		}
		cur.N.V = 66
		if am, isMap := cur.Any.(map[string]int8); isMap && am != nil {
			am["scribble"] = 1
		}
	}
	check("initial", func(ov reflect.Value) {
		if setP0 {
			ov.FieldByName("P").Elem().FieldByName("V").SetInt(41)
		}
	})
	for i := 0; i < k; i++ {
		pv := reflect.New(w.t.Type()).Elem()
		var wl func(ov reflect.Value)
		setP := zzverif.Bool("w" + strconv.Itoa(i) + "_setP")
		setX := zzverif.Bool("w" + strconv.Itoa(i) + "_setX")
		pV := zzverif.Int16("w" + strconv.Itoa(i) + "_PV")
		x := zzverif.Int8("w" + strconv.Itoa(i) + "_X")
		if setP {
			pf := pv.FieldByName("P")
			pf.Set(reflect.New(pf.Type().Elem()))
			vv := pV
			pf.Elem().FieldByName("V").Set(reflect.ValueOf(&vv))
		}
		if setX {
			xx := x
			pv.FieldByName("X").Set(reflect.ValueOf(&xx))
		}
		wl = func(ov reflect.Value) {
			if setP {
				ov.FieldByName("P").Elem().FieldByName("V").SetInt(int64(pV))
			}
			if setX {
				ov.FieldByName("X").SetInt(int64(x))
			}
		}
		srcVals = append(srcVals, pv)
		e := w.wa.BlockingReportNewValue(ctx, pv)
		zzverif.Assert(e == nil, "C07 a blocking report failed")
		check("after update "+strconv.Itoa(i), wl)
	}
	_ = ot
	zzverif.Reached("c02-hist-end")
}

// HarnessC02History2: two re-stacks.
func HarnessC02History2() { c02history(2) }

// HarnessC02History3: three re-stacks.
func HarnessC02History3() { c02history(3) }
