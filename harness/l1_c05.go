package dials

import (
	"reflect"
	"context"
	"strconv"
	"sync"

	"github.com/vimeo/dials/zzverif"
)

// ghost log of the order in which the monitor received reports (appended by the reporter right
// after the rendezvous with the monitor, in the same atomic step under symgo).
type ghostReport struct {
	src int
	v   hval
}

type ghostState struct {
	mu     sync.Mutex
	order  []ghostReport
	seen   map[uint64]*hcfg // serial -> config observed with it
	maxSer uint64
}

func (g *ghostState) observe(who string, cfg *hcfg, serial uint64, verifying bool) {
	if verifying {
		zzverif.Assert(!cfg.Bad, "C04 a config that fails Verify was visible through "+who)
	}
	if g.seen == nil {
		g.seen = map[uint64]*hcfg{}
	}
	if prev, ok := g.seen[serial]; ok {
		zzverif.Assert(prev == cfg, "C05 a config and serial read together do not belong together ("+who+")")
	} else {
		g.seen[serial] = cfg
	}
}

// expected folds the received reports like a fresh stacking would.
func expectedView(def hcfg, init0, init1 hval, order []ghostReport, verifying bool) (hcfg, uint64) {
	latest := []hval{init0, init1}
	stack := func() hcfg {
		c := def
		px := int64(0)
		if def.P != nil {
			px = def.P.X
		}
		for _, l := range latest {
			if l.setA {
				c.A = l.a
			}
			if l.setB {
				c.B = l.b
			}
			if l.setBad {
				c.Bad = l.bad
			}
			if l.setPX {
				px = l.px
			}
		}
		if def.P != nil {
			c.P = &hsub{X: px}
		}
		return c
	}
	cur := stack()
	serial := uint64(0)
	for _, r := range order {
		latest[r.src] = r.v
		n := stack()
		if verifying && n.Bad {
			continue
		}
		cur = n
		serial++
	}
	return cur, serial
}

func c05scenario(k0, k1, reads int) {
	verifyLog = nil
	g := &ghostState{}
	defPX := zzverif.Int64("defPX")
	def := hcfg{A: zzverif.Int64("defA"), B: zzverif.Int64("defB"), P: &hsub{X: defPX}}
	init0 := hval{setA: true, a: zzverif.Int64("a_init")}
	init1 := hval{setB: true, b: zzverif.Int64("b_init")}
	s0 := &hwsrc{hsrc{name: "s0", init: init0}}
	s1 := &hwsrc{hsrc{name: "s1", init: init1}}
	ctx, cancel := context.WithCancel(context.Background())
	defc := def
	defc.P = &hsub{X: defPX}
	d, err := Config(ctx, &defc, s0, s1)
	zzverif.Assert(err == nil, "C04 Config failed on a valid initial stack")
	if err != nil {
		cancel()
		return
	}
	// the caller goes on using its own struct after Config returned: none of that may reach the
	// library's copy of the defaults
	defc.A, defc.P.X = defc.A+7, defPX+1
	var wg sync.WaitGroup
	reporter := func(idx int, s *hwsrc, n int) {
		defer wg.Done()
		for i := 0; i < n; i++ {
			var v hval
			name := "u" + strconv.Itoa(idx) + "_" + strconv.Itoa(i)
			if idx == 0 {
				// the nested section is set (or not) by the first update and left alone by later ones
				v = hval{setA: true, a: zzverif.Int64(name + "_a"), setPX: i == 0 && zzverif.Choose(name+"_setPX", 2) == 1, px: zzverif.Int64(name + "_px")}
			} else {
				v = hval{setB: true, b: zzverif.Int64(name + "_b"), setBad: true, bad: zzverif.Bool(name + "_bad")}
			}
			if rerr := s.wa.ReportNewValue(ctx, mkValue(s.t, v)); rerr != nil {
				zzverif.Fail("C08 ReportNewValue failed although its context is live")
				return
			}
			g.order = append(g.order, ghostReport{idx, v})
		}
	}
	wg.Add(2)
	go reporter(0, s0, k0)
	go reporter(1, s1, k1)
	if reads > 0 {
		wg.Add(1)
		go func() {
			defer wg.Done()
			last := uint64(0)
			for i := 0; i < reads; i++ {
				cfg, ser := d.ViewVersion()
				g.observe("ViewVersion", cfg, ser.s, true)
				zzverif.Assert(ser.s >= last, "C05 a reader saw the serial go backwards")
				last = ser.s
			}
		}()
	}
	wg.Wait()
	zzverif.Quiesce()
	want, wantSerial := expectedView(def, init0, init1, g.order, true)
	got, ser := d.ViewVersion()
	zzverif.Assert(zzverif.And(got.A == want.A, got.B == want.B), "C05 the view differs from a fresh stack of the latest reported values")
	zzverif.Assert(got.Bad == want.Bad, "C05 the view's validity flag differs from a fresh stack")
	zzverif.Assert(got.P != nil && got.P.X == want.P.X, "C05 the view's nested section differs from a fresh stack of the latest reported values")
	zzverif.Assert(defc.P != nil && defc.P.X == defPX+1 && defc.P != got.P, "C05 re-stacking wrote through to the caller's defaults")
	zzverif.Assert(got.Derived == got.A+1, "C05 the view lacks what Verify fills in (a fresh Config call runs Verify on the config it installs)")
	zzverif.Assert(ser.s == wantSerial, "C05 the serial does not count the installed versions")
	g.observe("final ViewVersion", got, ser.s, true)
	zzverif.Reached("c05-end")
	cancel()
}

// HarnessC05Quick: two watching sources, 1+1 reports, a reader doing 2 reads.
func HarnessC05Quick() { c05scenario(1, 1, 2) }

// HarnessC05RejectAccept: one source reports twice with arbitrary validity (so a rejected report
// can be followed by an accepted one), one concurrent read.
func HarnessC05RejectAccept() { c05scenario(0, 2, 1) }

// HarnessC05Seq: 2+1 reports, no concurrent reader.
func HarnessC05Seq() { c05scenario(2, 1, 0) }

// HarnessC05Debug: sequential: s1 reports an invalid value, then s0 reports.
func HarnessC05Debug() {
	def := hcfg{}
	init0 := hval{setA: true, a: 1}
	init1 := hval{setB: true, b: 2}
	s0 := &hwsrc{hsrc{name: "s0", init: init0}}
	s1 := &hwsrc{hsrc{name: "s1", init: init1}}
	ctx, cancel := context.WithCancel(context.Background())
	defer cancel()
	d, err := Config(ctx, &def, s0, s1)
	if err != nil {
		zzverif.Fail("config failed")
		return
	}
	e1 := s1.wa.BlockingReportNewValue(ctx, mkValue(s1.t, hval{setB: true, b: 5, setBad: true, bad: true}))
	zzverif.Assert(e1 != nil, "expected rejection")
	e0 := s0.wa.BlockingReportNewValue(ctx, mkValue(s0.t, hval{setA: true, a: 7}))
	zzverif.Assert(e0 != nil, "second report should be rejected too (stack still invalid)")
	v := d.View()
	zzverif.Assert(v.A == 1 && v.B == 2, "view must be unchanged")
	zzverif.Reached("dbg-end")
}

// HarnessC05Thorough: 2+2 reports from two sources with a concurrent reader (2 reads).
func HarnessC05Thorough() { c05scenario(2, 2, 2) }

// HarnessC05Three: 3+1 reports, one read.
func HarnessC05Three() { c05scenario(3, 1, 1) }

// HarnessC05AfterDone: two watching sources; one of them finishes (Done); the other one's later
// reports are still installed and the view equals a fresh stack.
func HarnessC05AfterDone() {
	verifyLog = nil
	def := hcfg{A: zzverif.Int64("defA"), B: zzverif.Int64("defB")}
	init0 := hval{setA: true, a: zzverif.Int64("a_init")}
	init1 := hval{setB: true, b: zzverif.Int64("b_init")}
	srcs := []*hwsrc{{hsrc{name: "s0", init: init0}}, {hsrc{name: "s1", init: init1}}}
	ctx, cancel := context.WithCancel(context.Background())
	defer cancel()
	defc := def
	d, err := Config(ctx, &defc, srcs[0], srcs[1])
	if err != nil {
		zzverif.Fail("C04 Config failed on a valid initial stack")
		return
	}
	first := zzverif.Choose("doneFirst", 2)
	srcs[first].wa.Done(ctx)
	zzverif.Quiesce()
	other := srcs[1-first]
	nv := zzverif.Int64("later")
	v := hval{setA: true, a: nv}
	if first == 0 {
		v = hval{setB: true, b: nv}
	}
	_, ser0 := d.ViewVersion()
	e := other.wa.BlockingReportNewValue(ctx, mkValue(other.t, v))
	zzverif.Assert(e == nil, "C05 a report from a source that is still watching failed after another source finished")
	got, ser := d.ViewVersion()
	wantA, wantB := init0.a, init1.b
	if first == 0 {
		wantB = nv
	} else {
		wantA = nv
	}
	zzverif.Assert(zzverif.And(got.A == wantA, got.B == wantB), "C05 the view differs from a fresh stack of the latest reported values (after one watcher finished)")
	zzverif.Assert(ser.s == ser0.s+1, "C05 the serial does not count the installed versions")
	zzverif.Reached("c05-done-end")
}

// HarnessC05SameObject: a watching source keeps ONE value object, changes it in place and reports
// it again; each report re-stacks from the contents the object has at that time.
func HarnessC05SameObject() {
	verifyLog = nil
	def := hcfg{A: zzverif.Int64("defA"), B: zzverif.Int64("defB")}
	src := &hwsrc{hsrc{name: "s0", init: hval{setA: true, a: zzverif.Int64("a_init")}}}
	ctx, cancel := context.WithCancel(context.Background())
	defer cancel()
	defc := def
	d, err := Config(ctx, &defc, src)
	if err != nil {
		zzverif.Fail("C04 Config failed on a valid initial stack")
		return
	}
	_, ser0 := d.ViewVersion()
	a1, a2, b2 := zzverif.Int64("a1"), zzverif.Int64("a2"), zzverif.Int64("b2")
	held := mkValue(src.t, hval{setA: true, a: a1})
	e1 := src.wa.BlockingReportNewValue(ctx, held)
	zzverif.Assert(e1 == nil, "C07 a valid blocking report failed")
	v1, ser1 := d.ViewVersion()
	zzverif.Assert(zzverif.And(v1.A == a1, v1.B == def.B), "C05 the view differs from a fresh stack of the latest reported values")
	zzverif.Assert(ser1.s == ser0.s+1, "C05 the serial does not count the installed versions")
	if zzverif.Choose("how", 2) == 0 {
		held.FieldByName("A").Elem().SetInt(a2)
	} else {
		x := a2
		held.FieldByName("A").Set(reflect.ValueOf(&x))
	}
	y := b2
	held.FieldByName("B").Set(reflect.ValueOf(&y))
	e2 := src.wa.BlockingReportNewValue(ctx, held)
	zzverif.Assert(e2 == nil, "C07 a valid blocking report failed")
	v2, ser2 := d.ViewVersion()
	zzverif.Assert(zzverif.And(v2.A == a2, v2.B == b2), "C05 the view differs from a fresh stack of the latest reported value (the source reported the same object again after changing it)")
	zzverif.Assert(ser2.s == ser1.s+1, "C05 the serial does not count the installed versions")
	zzverif.Assert(zzverif.And(v1.A == a1, v1.B == def.B), "C02 a later report changed a version handed out earlier")
	zzverif.Reached("c05-sameobject-end")
}
