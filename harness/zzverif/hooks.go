package zzverif

import "time"

var yieldHook = func(string) {}

var quiesceHook = func() { time.Sleep(20 * time.Millisecond) }
