package zzverif

// Native schedule controller: replays the goroutine schedule recorded by the symbolic executor.
// Source files are instrumented (overlay copies) so that every scheduling point calls Yield and
// every `go` statement goes through Go. One logical goroutine runs at a time, in the recorded
// order; a rendezvous step releases sender and receiver together.

import (
	"bytes"
	"fmt"
	"os"
	"runtime"
	"strconv"
	"sync"
	"time"
)

// Step is one recorded scheduler step.
type Step struct {
	G    int    `json:"g"`
	Op   string `json:"op"`
	Site string `json:"site,omitempty"`
	Peer int    `json:"peer"`
}

var ctl struct {
	mu       sync.Mutex
	cond     *sync.Cond
	active   bool
	steps    []Step
	pos      int
	gids     map[uint64]int
	parked   map[int]bool
	running  map[int]bool
	alive    map[int]bool
	next     int
	diverged string
	lastMove time.Time
	trace    []string
}

func init() { ctl.cond = sync.NewCond(&ctl.mu) }

func goid() uint64 {
	var buf [64]byte
	n := runtime.Stack(buf[:], false)
	b := buf[:n]
	b = bytes.TrimPrefix(b, []byte("goroutine "))
	i := bytes.IndexByte(b, ' ')
	if i < 0 {
		return 0
	}
	id, _ := strconv.ParseUint(string(b[:i]), 10, 64)
	return id
}

// startSchedule activates the controller for the calling goroutine (logical id 0).
func startSchedule(steps []Step) {
	ctl.mu.Lock()
	defer ctl.mu.Unlock()
	ctl.active = len(steps) > 0
	ctl.steps = steps
	ctl.pos = 0
	ctl.gids = map[uint64]int{goid(): 0}
	ctl.parked = map[int]bool{}
	ctl.running = map[int]bool{0: true}
	ctl.alive = map[int]bool{0: true}
	ctl.next = 1
	ctl.diverged = ""
	ctl.lastMove = time.Now()
	ctl.trace = nil
	if ctl.active {
		go watchdog()
	}
}

func stopSchedule() (string, int, int) {
	ctl.mu.Lock()
	defer ctl.mu.Unlock()
	ctl.active = false
	ctl.cond.Broadcast()
	return ctl.diverged, ctl.pos, len(ctl.steps)
}

func watchdog() {
	for {
		time.Sleep(50 * time.Millisecond)
		ctl.mu.Lock()
		if !ctl.active {
			ctl.mu.Unlock()
			return
		}
		if time.Since(ctl.lastMove) > 700*time.Millisecond {
			ctl.diverged = fmt.Sprintf("no progress at step %d/%d (a released goroutine blocked or the schedule does not match)", ctl.pos, len(ctl.steps))
			ctl.active = false
			ctl.cond.Broadcast()
			ctl.mu.Unlock()
			return
		}
		ctl.mu.Unlock()
	}
}

// advance picks the next step when nothing is running. Called with the lock held.
func advance() {
	if !ctl.active {
		return
	}
	for _, r := range ctl.running {
		if r {
			return
		}
	}
	if ctl.pos >= len(ctl.steps) {
		ctl.active = false
		ctl.cond.Broadcast()
		return
	}
	st := ctl.steps[ctl.pos]
	ctl.pos++
	ctl.lastMove = time.Now()
	rel := func(g int) bool {
		if !ctl.alive[g] || !ctl.parked[g] {
			ctl.diverged = fmt.Sprintf("step %d wants goroutine %d (%s %s) which is not parked at a scheduling point", ctl.pos-1, g, st.Op, st.Site)
			ctl.active = false
			return false
		}
		ctl.parked[g] = false
		ctl.running[g] = true
		return true
	}
	if rel(st.G) && st.Peer >= 0 {
		rel(st.Peer)
	}
	ctl.cond.Broadcast()
}

func yieldImpl(site string) {
	ctl.mu.Lock()
	if !ctl.active {
		ctl.mu.Unlock()
		return
	}
	g, ok := ctl.gids[goid()]
	if !ok {
		ctl.mu.Unlock()
		return
	}
	ctl.running[g] = false
	ctl.parked[g] = true
	ctl.lastMove = time.Now()
	advance()
	for ctl.active && !ctl.running[g] {
		ctl.cond.Wait()
	}
	ctl.mu.Unlock()
}

// Go starts fn as a new logical goroutine.
func Go(site string, fn func()) {
	ctl.mu.Lock()
	if !ctl.active {
		ctl.mu.Unlock()
		go fn()
		return
	}
	id := ctl.next
	ctl.next++
	ctl.alive[id] = true
	ctl.running[id] = true
	started := make(chan struct{})
	go func() {
		ctl.mu.Lock()
		ctl.gids[goid()] = id
		ctl.mu.Unlock()
		close(started)
		defer func() {
			ctl.mu.Lock()
			ctl.alive[id] = false
			ctl.running[id] = false
			ctl.parked[id] = false
			ctl.lastMove = time.Now()
			advance()
			ctl.cond.Broadcast()
			ctl.mu.Unlock()
		}()
		fn()
	}()
	ctl.mu.Unlock()
	<-started
	// like the symbolic scheduler: the child runs up to its first scheduling point first
	ctl.mu.Lock()
	for ctl.active && ctl.running[id] {
		ctl.cond.Wait()
	}
	ctl.mu.Unlock()
}

var yieldHook = yieldImpl

var quiesceHook = func() {
	ctl.mu.Lock()
	act := ctl.active
	ctl.mu.Unlock()
	if act {
		yieldImpl("quiesce")
		return
	}
	time.Sleep(30 * time.Millisecond)
}

func debugf(format string, args ...interface{}) {
	if os.Getenv("ZZVERIF_DEBUG") != "" {
		fmt.Fprintf(os.Stderr, format+"\n", args...)
	}
}
