// Package zzverif is the nondeterminism/assertion API used by verification harnesses.
//
// Under the symbolic executor (symgo) every function here is intercepted by name and the bodies
// below are never run. Compiled natively (replay of a solver model with `go test -overlay`) the
// bodies feed the recorded concrete values to the same harness code.
package zzverif

import (
	"encoding/json"
	"fmt"
	"os"
	"runtime/debug"
	"sync"
	"time"
)

func nativeTimeout() time.Duration {
	if v := os.Getenv("ZZVERIF_TIMEOUT_MS"); v != "" {
		var ms int
		fmt.Sscanf(v, "%d", &ms)
		if ms > 0 {
			return time.Duration(ms) * time.Millisecond
		}
	}
	return 4 * time.Second
}

type replayFile struct {
	Inputs map[string][]uint64 `json:"inputs"`
}

var (
	mu       sync.Mutex
	loaded   bool
	rp       replayFile
	counters = map[string]int{}
	failures []string
	diverged []string
	observed = map[string]string{}
	reached  = map[string]bool{}
)

func load() {
	if loaded {
		return
	}
	loaded = true
	rp.Inputs = map[string][]uint64{}
	if p := os.Getenv("ZZVERIF_REPLAY"); p != "" {
		data, err := os.ReadFile(p)
		if err != nil {
			panic("zzverif: cannot read replay file: " + err.Error())
		}
		var f struct {
			Inputs map[string][]uint64 `json:"inputs"`
		}
		if err := json.Unmarshal(data, &f); err != nil {
			panic("zzverif: bad replay file: " + err.Error())
		}
		if f.Inputs != nil {
			rp.Inputs = f.Inputs
		}
	}
}

// Reset clears per-run state (used by the native test driver between harness runs).
func Reset() {
	mu.Lock()
	defer mu.Unlock()
	counters = map[string]int{}
	failures = nil
	diverged = nil
	observed = map[string]string{}
	reached = map[string]bool{}
}

func next(name string) uint64 {
	mu.Lock()
	defer mu.Unlock()
	load()
	k := counters[name]
	counters[name] = k + 1
	vs := rp.Inputs[name]
	if k < len(vs) {
		return vs[k]
	}
	return 0
}

// Symbolic reports whether the harness runs under the symbolic executor.
func Symbolic() bool { return false }

func Int64(name string) int64   { return int64(next(name)) }
func Uint64(name string) uint64 { return next(name) }
func Int(name string) int       { return int(int64(next(name))) }
func Int32(name string) int32   { return int32(next(name)) }
func Uint32(name string) uint32 { return uint32(next(name)) }
func Int16(name string) int16   { return int16(next(name)) }
func Uint16(name string) uint16 { return uint16(next(name)) }
func Int8(name string) int8     { return int8(next(name)) }
func Byte(name string) byte     { return byte(next(name)) }
func Bool(name string) bool     { return next(name) != 0 }

// Choose returns a value in [0,n): symbolically every alternative is explored.
func Choose(name string, n int) int {
	v := int(next(name))
	if v < 0 || v >= n {
		Diverge(fmt.Sprintf("Choose(%s,%d) replay value %d out of range", name, n, v))
		return 0
	}
	return v
}

// Bytes returns a string of exactly n bytes, each one symbolic.
func Bytes(name string, n int) string {
	b := make([]byte, n)
	for i := range b {
		b[i] = byte(next(name))
	}
	return string(b)
}

type divergence struct{ msg string }

// Diverge marks the native run as not following the symbolic path.
func Diverge(msg string) {
	mu.Lock()
	diverged = append(diverged, msg)
	mu.Unlock()
	fmt.Fprintln(os.Stderr, "ZZVERIF-DIVERGED: "+msg)
}

// Assume restricts the inputs; natively a false assumption means the replay vector is off.
func Assume(c bool) {
	if !c {
		Diverge("assumption false")
		panic(divergence{"assumption false"})
	}
}

// Assert states the property.
func Assert(c bool, msg string) {
	if !c {
		Fail(msg)
	}
}

// AssertUnlessKnown is Assert with a known-finding class: when classPred holds the violation
// belongs to the listed class `class` (see /verif/known_findings.json).
func AssertUnlessKnown(c bool, msg string, class string, classPred bool) {
	if !c {
		if classPred {
			Fail(msg + " [class " + class + "]")
		} else {
			Fail(msg)
		}
	}
}

// Fail records a violation.
func Fail(msg string) {
	mu.Lock()
	failures = append(failures, msg)
	mu.Unlock()
	fmt.Fprintln(os.Stderr, "ZZVERIF-FAIL: "+msg)
}

// Reached marks a reachability witness.
func Reached(tag string) {
	mu.Lock()
	reached[tag] = true
	mu.Unlock()
}

// Observe records an observation for differential validation.
func Observe(name string, v interface{}) {
	mu.Lock()
	observed[name] = fmt.Sprint(v)
	mu.Unlock()
}

// Event is a ghost synchronisation point (a scheduling point under symgo).
func Event(tag string) { yieldHook(tag) }

// Yield is a plain scheduling point.
func Yield(site string) { yieldHook(site) }

// Daemon declares that the calling goroutine may stay parked forever.
func Daemon() {}

// Quiesce blocks until no other goroutine can make progress (symbolically); natively it
// sleeps briefly.
func Quiesce() { quiesceHook() }

// NumParked returns the number of other non-daemon goroutines still alive (symbolic only).
func NumParked() int { return 0 }

// ParkedDesc describes parked goroutines (symbolic only).
func ParkedDesc() string { return "" }

// Failures returns the recorded assertion failures.
func Failures() []string {
	mu.Lock()
	defer mu.Unlock()
	return append([]string(nil), failures...)
}

// Diverged returns recorded divergences.
func Diverged() []string {
	mu.Lock()
	defer mu.Unlock()
	return append([]string(nil), diverged...)
}

// Observations returns recorded observations.
func Observations() map[string]string {
	mu.Lock()
	defer mu.Unlock()
	out := map[string]string{}
	for k, v := range observed {
		out[k] = v
	}
	return out
}

// RunNative runs a harness natively and reports the outcome on stdout in one line:
// ZZVERIF-RESULT: {"outcome":"ok|fail|panic|diverged", ...}
func RunNative(name string, h func()) (outcome string) { return runNative(name, h, true) }

var curSchedule []Step

func runNative(name string, h func(), report bool) (outcome string) {
	Reset()
	var panicMsg string
	startSchedule(curSchedule)
	done := make(chan struct{})
	timedOut := false
	go func() {
		defer close(done)
		defer func() {
			if r := recover(); r != nil {
				if _, ok := r.(divergence); ok {
					return
				}
				panicMsg = fmt.Sprint(r)
			}
		}()
		// the harness runs as logical goroutine 0
		ctl.mu.Lock()
		if ctl.gids != nil {
			for k := range ctl.gids {
				delete(ctl.gids, k)
			}
			ctl.gids[goid()] = 0
		}
		ctl.mu.Unlock()
		h()
	}()
	select {
	case <-done:
	case <-time.After(nativeTimeout()):
		timedOut = true
	}
	schedDiv, pos, total := stopSchedule()
	removeTempFiles()
	outcome = "ok"
	switch {
	case len(Diverged()) > 0:
		outcome = "diverged"
	case panicMsg != "":
		outcome = "panic"
	case len(Failures()) > 0:
		outcome = "fail"
	case timedOut:
		outcome = "timeout"
	}
	if !report && outcome != "fail" && outcome != "panic" && outcome != "timeout" {
		return outcome
	}
	res := map[string]interface{}{"harness": name, "outcome": outcome, "failures": Failures(), "panic": panicMsg, "observed": Observations(),
		"schedule_diverged": schedDiv, "schedule_pos": pos, "schedule_len": total}
	b, _ := json.Marshal(res)
	fmt.Println("ZZVERIF-RESULT: " + string(b))
	return outcome
}

// Boolean combinators that do not short-circuit (no forking under symgo).
func And(a, b bool) bool     { return a && b }
func Or(a, b bool) bool      { return a || b }
func Not(a bool) bool        { return !a }
func Implies(a, b bool) bool { return !a || b }

// InRange reports lo <= c <= hi.
func InRange(c, lo, hi byte) bool { return lo <= c && c <= hi }

// StrEq compares two strings (symbolically without forking).
func StrEq(a, b string) bool { return a == b }

// Case is one native replay case.
type Case struct {
	ID       string              `json:"id"`
	Harness  string              `json:"harness"`
	Inputs   map[string][]uint64 `json:"inputs"`
	Schedule []Step              `json:"schedule,omitempty"`
	Attempts int                 `json:"attempts,omitempty"`
}

// RunBatch runs the cases listed in the file named by $ZZVERIF_CASES against the given harnesses.
func RunBatch(harnesses map[string]func()) {
	p := os.Getenv("ZZVERIF_CASES")
	if p == "" {
		return
	}
	data, err := os.ReadFile(p)
	if err != nil {
		panic("zzverif: " + err.Error())
	}
	var cases []Case
	if err := json.Unmarshal(data, &cases); err != nil {
		panic("zzverif: " + err.Error())
	}
	debug.SetMaxStack(96 << 20) // unbounded recursion dies quickly instead of after 1 GB
	for _, c := range cases {
		h := harnesses[c.Harness]
		if h == nil {
			fmt.Println("ZZVERIF-RESULT: " + `{"id":"` + c.ID + `","outcome":"no-such-harness"}`)
			continue
		}
		mu.Lock()
		loaded = true
		rp.Inputs = c.Inputs
		if rp.Inputs == nil {
			rp.Inputs = map[string][]uint64{}
		}
		mu.Unlock()
		fmt.Println("ZZVERIF-BEGIN: " + c.ID)
		curSchedule = c.Schedule
		attempts := c.Attempts
		if attempts < 1 {
			attempts = 1
		}
		for a := 0; a < attempts; a++ {
			last := a == attempts-1
			if out := runNative(c.ID, h, last); out == "fail" || out == "panic" || out == "timeout" {
				break
			}
		}
		curSchedule = nil
	}
}

// Literal styles.
const (
	StyleDecimal    = 0
	StyleHex        = 1 // 0x...
	StyleOctal      = 2 // 0o...
	StyleBinary     = 3 // 0b...
	StyleUnderscore = 4 // decimal with _ separators (only legal with base 0)
	NumStyles       = 5
)

func fmtMag(mag uint64, neg bool, style int) string {
	var s string
	switch style {
	case StyleHex:
		s = "0x" + fmtBase(mag, 16)
	case StyleOctal:
		s = "0o" + fmtBase(mag, 8)
	case StyleBinary:
		s = "0b" + fmtBase(mag, 2)
	case StyleUnderscore:
		d := fmtBase(mag, 10)
		out := ""
		for i := range d {
			if i > 0 && (len(d)-i)%3 == 0 {
				out += "_"
			}
			out += string(d[i])
		}
		s = out
	default:
		s = fmtBase(mag, 10)
	}
	if neg {
		s = "-" + s
	}
	return s
}

func fmtBase(v uint64, base uint64) string {
	if v == 0 {
		return "0"
	}
	const digits = "0123456789abcdef"
	var b [64]byte
	i := len(b)
	for v > 0 {
		i--
		b[i] = digits[v%base]
		v /= base
	}
	return string(b[i:])
}

// Literal returns the text of the Go integer literal for v in the given style. Under symgo the
// result is an opaque string segment whose value is the (symbolic) v.
func Literal(v int64, style int) string {
	if v < 0 {
		return fmtMag(uint64(-v), true, style) // -MinInt64 wraps to 2^63, which is its magnitude
	}
	return fmtMag(uint64(v), false, style)
}

// LiteralU is Literal for unsigned values.
func LiteralU(v uint64, style int) string { return fmtMag(v, false, style) }

// LiteralWide returns a decimal literal of magnitude 2^64 (outside every 64-bit type).
func LiteralWide(neg bool) string {
	if neg {
		return "-18446744073709551616"
	}
	return "18446744073709551616"
}

// Setenv sets an environment variable for the code under test (the symbolic executor keeps its
// own table, consulted by os.LookupEnv/os.Getenv).
func Setenv(key, val string) {
	if err := os.Setenv(key, val); err != nil {
		Diverge("Setenv: " + err.Error())
	}
}

// Unsetenv removes an environment variable.
func Unsetenv(key string) { os.Unsetenv(key) }

// TempFile returns the path of an existing file with the given content (natively a fresh
// temporary file; under symgo a fixed path, since file I/O is stubbed there).
func TempFile(content string) string {
	f, err := os.CreateTemp("", "zzverif-*")
	if err != nil {
		Diverge("TempFile: " + err.Error())
		return "/nonexistent"
	}
	f.WriteString(content)
	f.Close()
	tempMu.Lock()
	tempFiles = append(tempFiles, f.Name())
	tempMu.Unlock()
	return f.Name()
}

var (
	tempMu    sync.Mutex
	tempFiles []string
)

// removeTempFiles deletes what TempFile created during the case that just ended.
func removeTempFiles() {
	tempMu.Lock()
	defer tempMu.Unlock()
	for _, n := range tempFiles {
		os.Remove(n)
	}
	tempFiles = nil
}
