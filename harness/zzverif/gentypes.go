package zzverif

// Generated family of config struct types shared by the source/mangler harnesses: every struct of
// up to N fields over an alphabet of field shapes, in every order, built with reflect.StructOf.
// Field names are single capitalised words so that every documented naming rule is trivial
// (Fa -> FA / fa, Fa.X -> FA_X / fa-x / FaX); embedded structs contribute no name component.

import (
	"reflect"
	"strconv"
	"strings"
	"time"
)

type GenEmb struct {
	Ex int8
	Ey string
}

type GenLevel uint8

// user-defined named versions of the supported leaf kinds (second alphabet)
type GenName string
type GenFlag bool
type GenCount int64
type GenRatio float32
type GenList []string
type GenSetT map[string]struct{}
type GenGain complex64

// GenAddr is a text-unmarshalable type of slice kind (like net.IP)
type GenAddr []byte

func (a *GenAddr) UnmarshalText(b []byte) error { *a = append((*a)[:0], b...); return nil }
func (a GenAddr) MarshalText() ([]byte, error)  { return []byte(a), nil }

// leaf kinds
const (
	GLInt8 = iota
	GLString
	GLStrings
	GLSet
	GLDuration
	GLNamedUint8
	GLPtrInt16
	GLNamedString
	GLNamedBool
	GLNamedInt64
	GLNamedFloat32
	GLNamedList
	GLNamedSet
	GLNamedElems   // []GenName
	GLMapNamedVals // map[string]GenLevel
	GLPtrNamedString
	GLMapNamedKeys // map[GenName]GenName
	GLPtrStrings   // *[]string
	GLPtrMap       // *map[string]string
	GLPtrDuration  // *time.Duration
	GLPtrNamedUint8
	GLPtrBool
	GLPtrFloat64
	GLPtrComplex128
	GLAddr         // GenAddr
	GLNamedComplex // GenGain
	GLDurations    // []time.Duration
	GLUintptr
)

type GenLeaf struct {
	Path []string // field names from the root
	Emb  []bool   // Emb[i]: Path[i] is an embedded struct (no name component)
	Kind int
}

// Name joins the non-embedded path elements with sep, after applying f to each.
func (l GenLeaf) Name(sep string, f func(string) string) string {
	var parts []string
	for i, p := range l.Path {
		if i < len(l.Emb) && l.Emb[i] {
			continue
		}
		parts = append(parts, f(p))
	}
	return strings.Join(parts, sep)
}

type GenType struct {
	T      reflect.Type
	Leaves []GenLeaf
	Desc   string
}

type genShape struct {
	name   string
	t      reflect.Type
	emb    bool
	leaves []GenLeaf // relative to the field
}

var genInner = reflect.TypeOf(struct {
	X int8
	Y string
}{})

var genDeep = reflect.TypeOf(struct {
	P  int8
	In struct{ Z int8 }
	W  string
}{})

func genShapes() []genShape {
	xy := []GenLeaf{{Path: []string{"X"}, Kind: GLInt8}, {Path: []string{"Y"}, Kind: GLString}}
	return []genShape{
		{name: "int8", t: reflect.TypeOf(int8(0)), leaves: []GenLeaf{{Kind: GLInt8}}},
		{name: "string", t: reflect.TypeOf(""), leaves: []GenLeaf{{Kind: GLString}}},
		{name: "[]string", t: reflect.TypeOf([]string(nil)), leaves: []GenLeaf{{Kind: GLStrings}}},
		{name: "set", t: reflect.TypeOf(map[string]struct{}(nil)), leaves: []GenLeaf{{Kind: GLSet}}},
		{name: "struct", t: genInner, leaves: xy},
		{name: "*struct", t: reflect.PtrTo(genInner), leaves: xy},
		{name: "embedded", t: reflect.TypeOf(GenEmb{}), emb: true, leaves: []GenLeaf{{Path: []string{"Ex"}, Kind: GLInt8}, {Path: []string{"Ey"}, Kind: GLString}}},
		{name: "deep", t: genDeep, leaves: []GenLeaf{{Path: []string{"P"}, Kind: GLInt8}, {Path: []string{"In", "Z"}, Kind: GLInt8}, {Path: []string{"W"}, Kind: GLString}}},
		{name: "duration", t: reflect.TypeOf(time.Duration(0)), leaves: []GenLeaf{{Kind: GLDuration}}},
		{name: "named uint8", t: reflect.TypeOf(GenLevel(0)), leaves: []GenLeaf{{Kind: GLNamedUint8}}},
		{name: "*int16", t: reflect.TypeOf((*int16)(nil)), leaves: []GenLeaf{{Kind: GLPtrInt16}}},
	}
}

// genNamedShapes: every leaf is a user-defined named version of a supported kind (or a
// collection of such).
func genNamedShapes() []genShape {
	return []genShape{
		{name: "Name", t: reflect.TypeOf(GenName("")), leaves: []GenLeaf{{Kind: GLNamedString}}},
		{name: "Flag", t: reflect.TypeOf(GenFlag(false)), leaves: []GenLeaf{{Kind: GLNamedBool}}},
		{name: "Count", t: reflect.TypeOf(GenCount(0)), leaves: []GenLeaf{{Kind: GLNamedInt64}}},
		{name: "Ratio", t: reflect.TypeOf(GenRatio(0)), leaves: []GenLeaf{{Kind: GLNamedFloat32}}},
		{name: "List", t: reflect.TypeOf(GenList(nil)), leaves: []GenLeaf{{Kind: GLNamedList}}},
		{name: "SetT", t: reflect.TypeOf(GenSetT(nil)), leaves: []GenLeaf{{Kind: GLNamedSet}}},
		{name: "[]Name", t: reflect.TypeOf([]GenName(nil)), leaves: []GenLeaf{{Kind: GLNamedElems}}},
		{name: "map[string]Level", t: reflect.TypeOf(map[string]GenLevel(nil)), leaves: []GenLeaf{{Kind: GLMapNamedVals}}},
		{name: "*Name", t: reflect.TypeOf((*GenName)(nil)), leaves: []GenLeaf{{Kind: GLPtrNamedString}}},
		{name: "map[Name]Name", t: reflect.TypeOf(map[GenName]GenName(nil)), leaves: []GenLeaf{{Kind: GLMapNamedKeys}}},
		{name: "struct{Name;Level}", t: reflect.TypeOf(struct {
			X GenName
			Y GenLevel
		}{}), leaves: []GenLeaf{{Path: []string{"X"}, Kind: GLNamedString}, {Path: []string{"Y"}, Kind: GLNamedUint8}}},
	}
}

// genPtrShapes: user-declared pointers to every kind of leaf, and a few leaf types with unusual
// kind/method combinations.
func genPtrShapes() []genShape {
	return []genShape{
		{name: "*[]string", t: reflect.TypeOf((*[]string)(nil)), leaves: []GenLeaf{{Kind: GLPtrStrings}}},
		{name: "*map[string]string", t: reflect.TypeOf((*map[string]string)(nil)), leaves: []GenLeaf{{Kind: GLPtrMap}}},
		{name: "*Duration", t: reflect.TypeOf((*time.Duration)(nil)), leaves: []GenLeaf{{Kind: GLPtrDuration}}},
		{name: "*Level", t: reflect.TypeOf((*GenLevel)(nil)), leaves: []GenLeaf{{Kind: GLPtrNamedUint8}}},
		{name: "*bool", t: reflect.TypeOf((*bool)(nil)), leaves: []GenLeaf{{Kind: GLPtrBool}}},
		{name: "*float64", t: reflect.TypeOf((*float64)(nil)), leaves: []GenLeaf{{Kind: GLPtrFloat64}}},
		{name: "*complex128", t: reflect.TypeOf((*complex128)(nil)), leaves: []GenLeaf{{Kind: GLPtrComplex128}}},
		{name: "Addr", t: reflect.TypeOf(GenAddr(nil)), leaves: []GenLeaf{{Kind: GLAddr}}},
		{name: "Gain", t: reflect.TypeOf(GenGain(0)), leaves: []GenLeaf{{Kind: GLNamedComplex}}},
		{name: "[]Duration", t: reflect.TypeOf([]time.Duration(nil)), leaves: []GenLeaf{{Kind: GLDurations}}},
		{name: "int8", t: reflect.TypeOf(int8(0)), leaves: []GenLeaf{{Kind: GLInt8}}},
		{name: "uintptr", t: reflect.TypeOf(uintptr(0)), leaves: []GenLeaf{{Kind: GLUintptr}}},
	}
}

// GenNumPtrShapes is the size of the pointer-shape alphabet.
func GenNumPtrShapes() int { return len(genPtrShapes()) }

// GenStructPtr is GenStruct over the pointer-shape alphabet.
func GenStructPtr(shapes []int) (GenType, bool) { return genStruct(genPtrShapes(), shapes) }

// GenNumShapes is the size of the field-shape alphabet.
func GenNumShapes() int { return len(genShapes()) }

// GenNumNamedShapes is the size of the named-type alphabet.
func GenNumNamedShapes() int { return len(genNamedShapes()) }

// GenStructNamed is GenStruct over the named-type alphabet.
func GenStructNamed(shapes []int) (GenType, bool) { return genStruct(genNamedShapes(), shapes) }

var genFieldNames = []string{"Fa", "Fb", "Fc", "Fd"}

// GenStruct builds the struct type with one field per entry of shapes (indices into the
// alphabet); at most one embedded field is allowed (ok=false otherwise).
func GenStruct(shapes []int) (GenType, bool) { return genStruct(genShapes(), shapes) }

func genStruct(all []genShape, shapes []int) (GenType, bool) {
	var fields []reflect.StructField
	var gt GenType
	nemb := 0
	for i, k := range shapes {
		sh := all[k]
		name := genFieldNames[i]
		if sh.emb {
			nemb++
			if nemb > 1 {
				return GenType{}, false
			}
			name = "GenEmb"
		}
		fields = append(fields, reflect.StructField{Name: name, Type: sh.t, Anonymous: sh.emb})
		for _, l := range sh.leaves {
			nl := GenLeaf{Path: append([]string{name}, l.Path...), Kind: l.Kind}
			nl.Emb = make([]bool, len(nl.Path))
			nl.Emb[0] = sh.emb
			gt.Leaves = append(gt.Leaves, nl)
		}
		gt.Desc += strconv.Itoa(i) + ":" + sh.name + " "
	}
	gt.T = reflect.StructOf(fields)
	return gt, true
}

// ownField finds a field of v's struct type by its own (not promoted) name.
func ownField(v reflect.Value, name string) reflect.Value {
	t := v.Type()
	for i := 0; i < t.NumField(); i++ {
		if t.Field(i).Name == name {
			return v.Field(i)
		}
	}
	return reflect.Value{}
}

// GenGet walks a value of the *pointerified* generated type along the leaf's path. It returns
// the leaf (invalid if a struct on the way is nil) and how many structs on the way were non-nil.
func GenGet(root reflect.Value, l GenLeaf) (leaf reflect.Value, depthReached int) {
	v := root
	for i, p := range l.Path {
		for v.Kind() == reflect.Ptr {
			if v.IsNil() {
				return reflect.Value{}, i
			}
			v = v.Elem()
		}
		v = ownField(v, p)
		if !v.IsValid() {
			return reflect.Value{}, i
		}
	}
	return v, len(l.Path)
}

// GenParent returns the value of the struct-typed field at Path[:n] (n>=1), or invalid if
// something above it is nil.
func GenParent(root reflect.Value, l GenLeaf, n int) reflect.Value {
	v := root
	for _, p := range l.Path[:n] {
		for v.Kind() == reflect.Ptr {
			if v.IsNil() {
				return reflect.Value{}
			}
			v = v.Elem()
		}
		v = ownField(v, p)
		if !v.IsValid() {
			return reflect.Value{}
		}
	}
	return v
}

// GenLeafIs reports whether a set leaf (of the pointerified type) holds the canonical test value
// for its kind: int8 -> n, string -> "s", []string -> [a b], set -> {a}, duration -> 3s,
// named uint8 -> 7, *int16 -> 12.
func GenLeafIs(v reflect.Value, kind int, n int8) bool {
	for v.Kind() == reflect.Ptr {
		if v.IsNil() {
			return false
		}
		v = v.Elem()
	}
	switch kind {
	case GLInt8:
		return v.Int() == int64(n)
	case GLString:
		return v.String() == "s"
	case GLStrings:
		return v.Len() == 2 && v.Index(0).String() == "a" && v.Index(1).String() == "b"
	case GLSet:
		return v.Len() == 1 && v.MapIndex(reflect.ValueOf("a")).IsValid()
	case GLDuration:
		return v.Int() == int64(3*time.Second)
	case GLNamedUint8:
		return v.Uint() == 7
	case GLPtrInt16:
		return v.Int() == 12
	case GLNamedString, GLPtrNamedString:
		return v.String() == "s"
	case GLNamedBool:
		return v.Bool()
	case GLNamedInt64:
		return v.Int() == -9
	case GLNamedFloat32:
		return v.Float() == 1.5
	case GLNamedList, GLNamedElems:
		return v.Len() == 2 && v.Index(0).String() == "a" && v.Index(1).String() == "b"
	case GLNamedSet:
		return v.Len() == 1 && v.MapIndex(reflect.ValueOf("a")).IsValid()
	case GLMapNamedVals:
		e := v.MapIndex(reflect.ValueOf("k"))
		return v.Len() == 1 && e.IsValid() && e.Uint() == 7
	case GLMapNamedKeys:
		e := v.MapIndex(reflect.ValueOf(GenName("k")))
		return v.Len() == 1 && e.IsValid() && e.String() == "v"
	case GLPtrStrings:
		return v.Len() == 2 && v.Index(0).String() == "a" && v.Index(1).String() == "b"
	case GLPtrMap:
		e := v.MapIndex(reflect.ValueOf("k"))
		return v.Len() == 1 && e.IsValid() && e.String() == "v"
	case GLPtrDuration:
		return v.Int() == int64(3*time.Second)
	case GLPtrNamedUint8:
		return v.Uint() == 7
	case GLPtrBool:
		return v.Bool()
	case GLPtrFloat64:
		return v.Float() == 1.5
	case GLPtrComplex128, GLNamedComplex:
		return v.Complex() == complex(1, 2)
	case GLAddr:
		return v.Len() == 3 && v.Index(0).Uint() == 'a'
	case GLDurations:
		return v.Len() == 2 && v.Index(0).Int() == int64(time.Second) && v.Index(1).Int() == int64(2*time.Second)
	case GLUintptr:
		return v.Uint() == 9
	}
	return false
}

// GenText is the canonical textual form of the test value of a kind (as an environment value or
// flag argument).
func GenText(kind int, n string) string {
	switch kind {
	case GLInt8:
		return n
	case GLString:
		return "s"
	case GLStrings:
		return "a,b"
	case GLSet:
		return "a"
	case GLDuration:
		return "3s"
	case GLNamedUint8:
		return "7"
	case GLPtrInt16:
		return "12"
	case GLNamedString, GLPtrNamedString:
		return "s"
	case GLNamedBool:
		return "true"
	case GLNamedInt64:
		return "-9"
	case GLNamedFloat32:
		return "1.5"
	case GLNamedList, GLNamedElems:
		return "a,b"
	case GLNamedSet:
		return "a"
	case GLMapNamedVals:
		return "k:7"
	case GLMapNamedKeys, GLPtrMap:
		return "k:v"
	case GLPtrStrings:
		return "a,b"
	case GLPtrDuration:
		return "3s"
	case GLPtrNamedUint8:
		return "7"
	case GLPtrBool:
		return "true"
	case GLPtrFloat64:
		return "1.5"
	case GLPtrComplex128, GLNamedComplex:
		return "1+2i"
	case GLAddr:
		return "abc"
	case GLDurations:
		return "1s,2s"
	case GLUintptr:
		return "9"
	}
	return ""
}

// GenIsNilLeaf: the leaf of the pointerified output is unset.
func GenIsNilLeaf(v reflect.Value) bool {
	switch v.Kind() {
	case reflect.Ptr, reflect.Slice, reflect.Map, reflect.Interface:
		return v.IsNil()
	}
	return false
}
