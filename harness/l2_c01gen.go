package dials

// Generated family of config struct types for C01/C02: every struct of up to N fields over an
// alphabet of field kinds, in every order, built with reflect.StructOf and stacked through the
// real compose (in-package, since reflect-built types cannot instantiate the generic API).

import (
	"reflect"
	"strconv"

	"github.com/vimeo/dials/ptrify"
	"github.com/vimeo/dials/zzverif"
)

type c01genSub struct {
	V int8
	W string
}

// field kinds of the alphabet; the tag marks skipped fields
var c01genKinds = []struct {
	name string
	t    reflect.Type
	tag  reflect.StructTag
}{
	{"I8", reflect.TypeOf(int8(0)), ""},
	{"Str", reflect.TypeOf(""), ""},
	{"Sl", reflect.TypeOf([]int16(nil)), ""},
	{"Map", reflect.TypeOf(map[string]int8(nil)), ""},
	{"PI", reflect.TypeOf((*int)(nil)), ""},
	{"Sub", reflect.TypeOf(c01genSub{}), ""},
	{"PSub", reflect.TypeOf((*c01genSub)(nil)), ""},
	{"Arr", reflect.TypeOf([2]uint8{}), ""},
	{"Skip", reflect.TypeOf(int32(0)), `dials:"-"`},
	{"Ch", reflect.TypeOf((chan int)(nil)), ""},
	{"Fn", reflect.TypeOf((func())(nil)), ""},
	{"TU", reflect.TypeOf(c01TU{}), ""},
	// shapes that the seeded rounds showed to matter
	{"PN", reflect.TypeOf((*struct {
		Tags  []int16
		Level *int
	})(nil)), ""}, // pointer to an all-nilable struct (pointerified type == original type)
	{"SA", reflect.TypeOf([][1]*c01genSub(nil)), ""},       // pointer-bearing arrays inside a slice
	{"MK", reflect.TypeOf(map[c01key]int8(nil)), ""},       // struct map keys holding a pointer
	{"MM", reflect.TypeOf(map[string]map[string]int8(nil)), ""}, // map of maps
	{"TUr", reflect.TypeOf(c01TUrefs{}), ""},                // text-unmarshalable struct with reference fields
	{"KeepM", reflect.TypeOf(map[string]int8(nil)), `dials:"-"`}, // exported, unmanaged, reference-bearing
	{"Mark", reflect.TypeOf(struct{}{}), ""}, // a zero-field marker struct
	{"PCh", reflect.TypeOf((*chan int)(nil)), ""},                 // user-declared pointer to a channel (kept by ptrify, skipped by overlay?)
}

// c01genDefault fills a value of the generated type with symbolic defaults.
func c01genDefault(v reflect.Value, ch chan int, fn func()) {
	t := v.Type()
	for i := 0; i < t.NumField(); i++ {
		f := v.Field(i)
		name := "d" + strconv.Itoa(i)
		switch f.Kind() {
		case reflect.Chan:
			f.Set(reflect.ValueOf(ch))
		case reflect.Func:
			f.Set(reflect.ValueOf(fn))
		case reflect.Ptr:
			if f.Type().Elem().Kind() == reflect.Chan {
				if zzverif.Choose(name+"_nonnil", 2) == 1 {
					c := ch
					f.Set(reflect.ValueOf(&c))
				}
				continue
			}
			if zzverif.Choose(name+"_nonnil", 2) == 1 {
				f.Set(c01whole(name, f.Type(), 0))
			}
		case reflect.Slice, reflect.Map:
			if zzverif.Choose(name+"_nonnil", 2) == 1 {
				f.Set(c01whole(name, f.Type(), 0))
			}
		default:
			f.Set(c01whole(name, f.Type(), 0))
		}
	}
}

func c01gen(nfields, nlayers int) { c01genN(nfields, nlayers, len(c01genKinds)) }

// nkinds: how many kinds of the alphabet (from its start) the fields are drawn from.
func c01genN(nfields, nlayers, nkinds int) {
	var sfs []reflect.StructField
	for i := 0; i < nfields; i++ {
		k := c01genKinds[zzverif.Choose("kind"+strconv.Itoa(i), nkinds)]
		sfs = append(sfs, reflect.StructField{Name: k.name + strconv.Itoa(i), Type: k.t, Tag: k.tag})
	}
	st := reflect.StructOf(sfs)
	ch := make(chan int)
	fn := func() {}
	defp := reflect.New(st)
	c01genDefault(defp.Elem(), ch, fn)
	// independent copies of the defaults: reference model and "unchanged" witness
	refp := reflect.New(st)
	refp.Elem().Set(c01copy(defp.Elem()))
	def0 := reflect.New(st)
	def0.Elem().Set(c01copy(defp.Elem()))
	pt := ptrify.Pointerify(st, defp.Elem())
	var srcs []sourceValue
	var vals []reflect.Value
	for l := 0; l < nlayers; l++ {
		pv := reflect.New(pt).Elem()
		c01fill("L"+strconv.Itoa(l)+".", st, pv, refp.Elem())
		srcs = append(srcs, sourceValue{value: pv})
		vals = append(vals, pv)
	}
	res, err := compose(defp.Interface(), srcs)
	zzverif.Assert(err == nil, "C01 generated type: stacking failed for a supported config type")
	if err != nil {
		return
	}
	got := reflect.ValueOf(res).Elem()
	zzverif.Assert(c01eq(got, refp.Elem()), "C01 generated type: a leaf of the stacked config is not the value of the last source that set it (or the default), or a skipped field shifted a value")
	zzverif.Assert(c01eq(defp.Elem(), def0.Elem()), "C02 generated type: stacking modified the defaults")
	vr, dr := map[uintptr]bool{}, map[uintptr]bool{}
	c01refs(got, vr)
	c01refs(defp.Elem(), dr)
	zzverif.Assert(c01disjoint(vr, dr), "C02 generated type: the result shares memory with the defaults")
	for _, pv := range vals {
		sr := map[uintptr]bool{}
		c01refs(pv, sr)
		zzverif.Assert(c01disjoint(vr, sr), "C02 generated type: the result shares memory with a source's value")
	}
	zzverif.Reached("c01-gen-end")
}

// HarnessC01Gen2: all 18+324 types of 1-2 fields, one layer.
func HarnessC01Gen2() { c01gen(1+zzverif.Choose("nfields", 2), 1) }

// HarnessC01Gen2L2: 2 fields, two layers.
func HarnessC01Gen2L2() { c01gen(2, 2) }

// HarnessC01Gen3: all 1728 types of 3 fields over the first 12 kinds, one layer.
func HarnessC01Gen3() { c01genN(3, 1, 12) }
