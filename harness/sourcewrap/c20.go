package sourcewrap

// C20: source wrappers are transparent for initial values and later updates; Blank delegation.

import (
	"context"
	"errors"
	"io"
	"reflect"

	"github.com/vimeo/dials"
	"github.com/vimeo/dials/ptrify"
	"github.com/vimeo/dials/transform"
	"github.com/vimeo/dials/zzverif"
)

type c20cfg struct {
	A int64
	B uint16
}

var errInner = errors.New("inner source failed")

// c20inner is a (optionally watching) source that fills the *translated* type it is handed:
// with the string-casting mangler every leaf is a *string.
type c20inner struct {
	a        string // text for field A ("" = unset)
	b        string
	asPtr    bool // return a pointer to the filled struct (dials accepts both)
	valueErr error
	watchErr error
	t        *dials.Type
	wa       dials.WatchArgs
}

func (s *c20inner) fill(t *dials.Type, a, b string) reflect.Value {
	out := reflect.New(t.Type()).Elem()
	if a != "" {
		x := a
		out.FieldByName("A").Set(reflect.ValueOf(&x))
	}
	if b != "" {
		x := b
		out.FieldByName("B").Set(reflect.ValueOf(&x))
	}
	return out
}

func (s *c20inner) Value(ctx context.Context, t *dials.Type) (reflect.Value, error) {
	if s.valueErr != nil {
		return reflect.Value{}, s.valueErr
	}
	v := s.fill(t, s.a, s.b)
	if s.asPtr {
		return v.Addr(), nil
	}
	return v, nil
}

type c20watcher struct{ c20inner }

func (s *c20watcher) Watch(ctx context.Context, t *dials.Type, wa dials.WatchArgs) error {
	s.t = t
	s.wa = wa
	return s.watchErr
}

// HarnessC20TransformStatic: a transforming source over a non-watching inner source delivers the
// reverse-translated initial value; inner errors propagate.
func HarnessC20TransformStatic() {
	v := zzverif.Int64("a")
	u := zzverif.Uint64("b")
	zzverif.Assume(u <= 0xffff)
	fail := zzverif.Choose("fail", 3) // 0 fine, 1 the inner source fails, 2 its value cannot be reverse-translated
	inner := &c20inner{a: zzverif.Literal(v, zzverif.StyleDecimal), b: zzverif.LiteralU(u, zzverif.StyleDecimal)}
	if fail == 2 {
		inner.a = "not-a-number"
	}
	inner.asPtr = zzverif.Choose("ptr", 2) == 1
	if fail == 1 {
		inner.valueErr = errInner
	}
	src := NewTransformingSource(inner, &transform.StringCastingMangler{})
	def := c20cfg{A: 1, B: 2}
	d, err := dials.Config(context.Background(), &def, src)
	if fail == 1 {
		zzverif.Assert(err != nil && errors.Is(err, errInner), "C20 an inner source's error was swallowed or not wrapped by the transforming source")
		return
	}
	if fail == 2 {
		zzverif.Assert(err != nil, "C20 an initial value that cannot be reverse-translated did not make Config fail (the error was swallowed)")
		zzverif.Reached("c20-static-untranslatable")
		return
	}
	zzverif.Assert(err == nil, "C20 Config failed through a transforming source")
	if err != nil {
		return
	}
	got := d.View()
	zzverif.Assert(zzverif.And(got.A == v, uint64(got.B) == u), "C20 the initial value of a wrapped source did not arrive reverse-translated")
	zzverif.Reached("c20-static-end")
}

// HarnessC20TransformWatch: a wrapped watching source: the initial value and every later update
// (plain and blocking) arrive reverse-translated.
func HarnessC20TransformWatch() {
	v0 := zzverif.Int64("a0")
	v1 := zzverif.Int64("a1")
	v2 := zzverif.Int64("a2")
	inner := &c20watcher{c20inner{a: zzverif.Literal(v0, zzverif.StyleDecimal)}}
	werr := zzverif.Choose("watchfail", 2) == 1
	if werr {
		inner.watchErr = errInner
	}
	src := NewTransformingSource(inner, &transform.StringCastingMangler{})
	_, isWatcher := src.(dials.Watcher)
	zzverif.Assert(isWatcher, "C20 wrapping a watching source lost the Watcher interface")
	ctx, cancel := context.WithCancel(context.Background())
	defer cancel()
	def := c20cfg{}
	d, err := dials.Config(ctx, &def, src)
	if werr {
		zzverif.Assert(err != nil && errors.Is(err, errInner), "C20 an inner watcher's error was swallowed or not wrapped")
		return
	}
	zzverif.Assert(err == nil, "C20 Config failed through a transforming watcher")
	if err != nil {
		return
	}
	zzverif.Assert(d.View().A == v0, "C20 the initial value of a wrapped watching source did not arrive reverse-translated")
	e1 := inner.wa.BlockingReportNewValue(ctx, inner.fill(inner.t, zzverif.Literal(v1, zzverif.StyleDecimal), ""))
	zzverif.Assert(e1 == nil, "C20 a blocking update through the wrapper failed")
	zzverif.Assert(d.View().A == v1, "C20 a blocking update reported by a wrapped watching source did not arrive reverse-translated")
	e2 := inner.wa.ReportNewValue(ctx, inner.fill(inner.t, zzverif.Literal(v2, zzverif.StyleDecimal), ""))
	zzverif.Assert(e2 == nil, "C20 an update through the wrapper failed")
	zzverif.Quiesce()
	zzverif.Assert(d.View().A == v2, "C20 an update reported by a wrapped watching source did not arrive reverse-translated")
	// an update that cannot be reverse-translated is an error for the reporter, not a crash
	e3 := inner.wa.BlockingReportNewValue(ctx, inner.fill(inner.t, "not-a-number", ""))
	zzverif.Assert(e3 != nil, "C20 an untranslatable update was accepted")
	zzverif.Assert(d.View().A == v2, "C20 an untranslatable update changed the view")
	zzverif.Reached("c20-watch-end")
}

// ---- Blank

type c20plain struct {
	a   int64
	err error
}

func (s *c20plain) Value(ctx context.Context, t *dials.Type) (reflect.Value, error) {
	if s.err != nil {
		return reflect.Value{}, s.err
	}
	out := reflect.New(t.Type()).Elem()
	x := s.a
	out.FieldByName("A").Set(reflect.ValueOf(&x))
	return out, nil
}

type c20plainWatcher struct {
	c20plain
	watchCtx context.Context
	watched  bool
	wa       dials.WatchArgs
	t        *dials.Type
	watchErr error
}

func (s *c20plainWatcher) Watch(ctx context.Context, t *dials.Type, wa dials.WatchArgs) error {
	s.watched = true
	s.watchCtx = ctx
	s.wa = wa
	s.t = t
	return s.watchErr
}

// c20eagerWatcher reports a newer value (a+1) from within Watch.
type c20eagerWatcher struct{ c20plainWatcher }

func (s *c20eagerWatcher) Watch(ctx context.Context, t *dials.Type, wa dials.WatchArgs) error {
	s.watched, s.watchCtx, s.wa, s.t = true, ctx, wa, t
	out := reflect.New(t.Type()).Elem()
	x := s.a + 1
	out.FieldByName("A").Set(reflect.ValueOf(&x))
	return wa.BlockingReportNewValue(ctx, out)
}

// HarnessC20Blank: sequences of SetSource/Done on a Blank.
func HarnessC20Blank() {
	b := &Blank{}
	ctx, cancel := context.WithCancel(context.Background())
	defer cancel()
	def := c20cfg{A: 1}
	d, err := dials.Config(ctx, &def, b)
	zzverif.Assert(err == nil, "C20 Config failed with an empty Blank")
	if err != nil {
		return
	}
	zzverif.Assert(d.View().A == 1, "C20 an empty Blank changed the config")
	owner := 0 // 0 none, 1 plain inner, 2 watcher inner
	want := int64(1)
	var w *c20plainWatcher
	var lastPlain *c20plain
	for i := 0; i < 3; i++ {
		switch zzverif.Choose("op"+string(rune('0'+i)), 6) {
		case 5: // a nil source is refused, and the Blank stays usable
			e := b.SetSource(ctx, nil)
			zzverif.Assert(e != nil, "C20 SetSource accepted a nil source")
		case 4: // hand in the most recently set plain source again after its content changed
			if lastPlain == nil || owner == 2 {
				continue
			}
			lastPlain.a = int64(30 + i)
			e := b.SetSource(ctx, lastPlain)
			zzverif.Assert(e == nil, "C20 SetSource of the same plain source again failed")
			owner, want = 1, lastPlain.a
		case 0: // set a plain source
			v := int64(10 + i)
			np := &c20plain{a: v}
			e := b.SetSource(ctx, np)
			if owner != 2 {
				lastPlain = np
			}
			if owner == 2 {
				zzverif.Assert(e != nil, "C20 Blank replaced a watching inner source")
			} else {
				zzverif.Assert(e == nil, "C20 SetSource of a plain source failed")
				owner, want = 1, v
			}
		case 1: // set a failing source: state must be unchanged
			e := b.SetSource(ctx, &c20plain{err: errInner})
			zzverif.Assert(e != nil, "C20 SetSource swallowed the inner source's Value error")
			if owner != 2 {
				zzverif.Assert(errors.Is(e, errInner), "C20 SetSource did not wrap the inner source's error")
			}
		case 2: // set a watching source
			v := int64(20 + i)
			nw := &c20plainWatcher{c20plain: c20plain{a: v}}
			e := b.SetSource(ctx, nw)
			if owner == 2 {
				zzverif.Assert(e != nil, "C20 Blank replaced a watching inner source")
				zzverif.Assert(!nw.watched, "C20 Blank started a second watcher")
			} else {
				zzverif.Assert(e == nil && nw.watched, "C20 SetSource of a watching source failed or did not call Watch")
				owner, want, w = 2, v, nw
			}
		case 3: // Done
			b.Done(ctx)
			if owner != 2 {
				// the Blank owned the slot: dials has shut its monitor down
				zzverif.Quiesce()
				zzverif.Assert(d.View().A == want, "C20 Done changed the view")
				zzverif.Reached("c20-blank-done")
				return
			}
		}
		zzverif.Assert(d.View().A == want, "C20 after SetSource the view does not show the most recently set inner source's value")
		// Value() delegates to the most recently set inner source
		rv, verr := b.Value(ctx, dials.NewType(ptrTypeOf(d)))
		_ = rv
		zzverif.Assert(verr == nil, "C20 Blank.Value failed")
	}
	if owner == 2 {
		// the inner watcher owns the slot: its updates reach the view
		e := w.wa.BlockingReportNewValue(ctx, func() reflect.Value {
			out := reflect.New(w.t.Type()).Elem()
			x := int64(77)
			out.FieldByName("A").Set(reflect.ValueOf(&x))
			return out
		}())
		zzverif.Assert(e == nil && d.View().A == 77, "C20 an update from the inner watching source did not reach the view")
	}
	zzverif.Reached("c20-blank-end")
}

// HarnessC20BlankContexts: which context governs what in Blank.SetSource. The inner watcher is
// started under the context dials handed the Blank (it outlives the SetSource call); the call
// itself is bounded by the context passed to it (also when the monitor is already gone).
func HarnessC20BlankContexts() {
	b := &Blank{}
	ctx, cancel := context.WithCancel(context.Background())
	defer cancel()
	def := c20cfg{A: 1}
	d, err := dials.Config(ctx, &def, b)
	zzverif.Assert(err == nil, "C20 Config failed with an empty Blank")
	if err != nil {
		return
	}
	variant := zzverif.Choose("variant", 3)
	if variant == 2 {
		// the inner watcher's state moved on between Value() and Watch(): it reports the newer
		// value from within Watch (blocking). The view must end at the newer value.
		w := &c20eagerWatcher{c20plainWatcher{c20plain: c20plain{a: 5}}}
		e := b.SetSource(ctx, w)
		zzverif.Assert(e == nil && w.watched, "C20 SetSource of a watching source failed")
		zzverif.Assert(d.View().A == 6, "C20 an update the inner watcher reported from Watch was overwritten by the older initial value")
		zzverif.Reached("c20-blank-eager-end")
		return
	}
	if variant == 0 {
		cctx, ccancel := context.WithCancel(ctx)
		w := &c20plainWatcher{c20plain: c20plain{a: 5}}
		e := b.SetSource(cctx, w)
		zzverif.Assert(e == nil && w.watched && d.View().A == 5, "C20 SetSource of a watching source failed")
		ccancel() // the SetSource call is over
		if w.watchCtx != nil {
			zzverif.Assert(w.watchCtx.Err() == nil, "C20 the inner watcher was started under the SetSource call's context instead of the Blank's watch context (it dies with the call)")
		}
		e2 := w.wa.BlockingReportNewValue(ctx, func() reflect.Value {
			out := reflect.New(w.t.Type()).Elem()
			x := int64(78)
			out.FieldByName("A").Set(reflect.ValueOf(&x))
			return out
		}())
		zzverif.Assert(e2 == nil && d.View().A == 78, "C20 an update from the inner watching source did not reach the view")
		zzverif.Reached("c20-blank-ctx-end")
		return
	}
	b.Done(ctx)
	zzverif.Quiesce()
	lctx, lcancel := context.WithCancel(context.Background())
	go func() { lcancel() }()
	e := b.SetSource(lctx, &c20plain{a: 9})
	zzverif.Assert(e != nil, "C20 SetSource after the Blank was done claimed success")
	zzverif.Assert(d.View().A == 1, "C20 a source set after Done changed the view")
	zzverif.Reached("c20-blank-late-end")
}

// ptrTypeOf returns the pointerified type dials handed the Blank (recorded in b.t).
func ptrTypeOf(d *dials.Dials[c20cfg]) reflect.Type {
	type pt struct {
		A *int64
		B *uint16
	}
	return reflect.TypeOf(pt{})
}

// ---- transforming decoder

type c20cfgB struct {
	X string
	Y map[string]struct{}
	Z int8
}

// c20dec fills the first string-typed and first slice-typed field of whatever type it is given.
type c20dec struct{ fail bool }

func (d *c20dec) Decode(r io.Reader, t *dials.Type) (reflect.Value, error) {
	if d.fail {
		return reflect.Value{}, errInner
	}
	out := reflect.New(t.Type()).Elem()
	for i := 0; i < out.NumField(); i++ {
		f := out.Field(i)
		switch {
		case f.Type() == reflect.TypeOf((*string)(nil)):
			s := "str"
			f.Set(reflect.ValueOf(&s))
		case f.Kind() == reflect.Slice && f.Type().Elem().Kind() == reflect.String:
			f.Set(reflect.ValueOf([]string{"m"}))
		}
	}
	return out, nil
}

type c20empty struct{}

func (c20empty) Read(p []byte) (int, error) { return 0, io.EOF }

// HarnessC20Decoder: one transforming-decoder instance used for two different config types (in
// both orders), and a failing inner decoder.
func HarnessC20Decoder() {
	type cfgA struct {
		Name string
		Set  map[string]struct{}
	}
	fail := zzverif.Choose("fail", 2) == 1
	dec := NewTransformingDecoder(&c20dec{fail: fail}, &transform.SetSliceMangler{})
	ta := dials.NewType(ptrTypeFor(reflect.TypeOf(cfgA{})))
	tb := dials.NewType(ptrTypeFor(reflect.TypeOf(c20cfgB{})))
	order := []*dials.Type{ta, tb}
	if zzverif.Choose("order", 2) == 1 {
		order = []*dials.Type{tb, ta}
	}
	for round := 0; round < 2; round++ {
		for _, t := range order {
			v, err := dec.Decode(c20empty{}, t)
			if fail {
				zzverif.Assert(err != nil && errors.Is(err, errInner), "C20 an inner decoder's error was swallowed or not wrapped by the transforming decoder")
				continue
			}
			zzverif.Assert(err == nil, "C20 the transforming decoder failed")
			if err != nil {
				continue
			}
			zzverif.Assert(v.Type() == t.Type(), "C20 the transforming decoder returned a value of a type other than the one it was asked for")
			if v.Type() != t.Type() {
				continue
			}
			var sf, mf reflect.Value
			if t == ta {
				sf, mf = v.FieldByName("Name"), v.FieldByName("Set")
			} else {
				sf, mf = v.FieldByName("X"), v.FieldByName("Y")
				zzverif.Assert(v.FieldByName("Z").IsNil(), "C20 a leaf the inner decoder did not set is set")
			}
			zzverif.Assert(!sf.IsNil() && sf.Elem().String() == "str", "C20 a decoded string leaf did not arrive")
			zzverif.Assert(!mf.IsNil() && mf.Len() == 1 && mf.MapIndex(reflect.ValueOf("m")).IsValid(), "C20 a decoded set leaf did not arrive reverse-translated (slice -> set)")
		}
	}
	zzverif.Reached("c20-decoder-end")
}

func ptrTypeFor(t reflect.Type) reflect.Type { return ptrify.Pointerify(t, reflect.Value{}) }
