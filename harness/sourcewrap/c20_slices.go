package sourcewrap

import (
	"context"
	"reflect"

	"github.com/vimeo/dials"
	"github.com/vimeo/dials/common"
	"github.com/vimeo/dials/transform"
	"github.com/vimeo/dials/zzverif"
)

// embedded in the element struct, with an unexported field ahead of the exported ones
type C20Base struct {
	rev   int
	Name  string
	Owner string
}

type c20backend struct {
	Host string
	Port int16
	C20Base
}

type c20cfgL struct {
	Backends []c20backend
	Name     string
}

// c20lister fills the slice-of-structs field of whatever (translated) type it is handed: nil,
// empty or n elements, by field name like a decoder would.
type c20lister struct {
	mode int // 0 nil, 1 empty, 2 one element
	port int16
	t    *dials.Type
	wa   dials.WatchArgs
}

func (s *c20lister) make(t *dials.Type, mode int) reflect.Value {
	out := reflect.New(t.Type()).Elem()
	f := out.FieldByName("Backends")
	switch mode {
	case 1:
		f.Set(reflect.MakeSlice(f.Type(), 0, 0))
	case 2:
		sl := reflect.MakeSlice(f.Type(), 1, 1)
		sl.Index(0).FieldByName("Host").SetString("h")
		sl.Index(0).FieldByName("Port").SetInt(int64(s.port))
		// Owner is wherever the mangler list put it: hoisted, or inside the embedded struct
		if o := sl.Index(0).FieldByName("Owner"); o.IsValid() {
			o.SetString("ow")
		}
		f.Set(sl)
	}
	return out
}

func (s *c20lister) Value(ctx context.Context, t *dials.Type) (reflect.Value, error) {
	return s.make(t, s.mode), nil
}

func (s *c20lister) Watch(ctx context.Context, t *dials.Type, wa dials.WatchArgs) error {
	s.t, s.wa = t, wa
	return nil
}

// HarnessC20Slices: a recursing mangler list around a source that reports a slice of structs:
// unset stays unset (defaults show through), explicitly empty overrides with zero elements,
// elements arrive unchanged; initially and on a later update.
func HarnessC20Slices() {
	inner := &c20lister{mode: zzverif.Choose("initial", 3), port: zzverif.Int16("port")}
	var m transform.Mangler = transform.NewAliasMangler(common.DialsTagName)
	if zzverif.Choose("mangler", 2) == 1 {
		m = transform.AnonymousFlattenMangler{}
	}
	src := NewTransformingSource(inner, m)
	ctx, cancel := context.WithCancel(context.Background())
	defer cancel()
	def := c20cfgL{Backends: []c20backend{{Host: "d0", Port: 1}, {Host: "d1", Port: 2}}, Name: "n"}
	d, err := dials.Config(ctx, &def, src)
	zzverif.Assert(err == nil, "C20 Config failed through a transforming source with a slice of structs")
	if err != nil {
		return
	}
	chk := func(mode int, when string) {
		got := d.View().Backends
		switch mode {
		case 0:
			zzverif.Assert(len(got) == 2 && got[0].Host == "d0" && got[1].Port == 2, "C20 "+when+": a wrapped source that left the slice unset changed the defaults")
		case 1:
			zzverif.Assert(len(got) == 0, "C20 "+when+": an explicitly empty slice of structs reported by a wrapped source did not override the lower layer (arrived as unset)")
		case 2:
			zzverif.Assert(len(got) == 1 && got[0].Host == "h" && got[0].Port == inner.port, "C20 "+when+": the elements reported by a wrapped source did not arrive unchanged")
			zzverif.Assert(len(got) == 1 && got[0].Owner == "ow", "C20 "+when+": a leaf of a struct embedded in the element (declared after an unexported field) did not arrive")
		}
	}
	chk(inner.mode, "initial value")
	m2 := zzverif.Choose("update", 3)
	e := inner.wa.BlockingReportNewValue(ctx, inner.make(inner.t, m2))
	zzverif.Assert(e == nil, "C20 a blocking update through the wrapper failed")
	chk(m2, "update")
	zzverif.Reached("c20-slices-end")
}
