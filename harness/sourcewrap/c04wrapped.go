package sourcewrap

// C04/C07 through a source wrapper: a blocking report made by a wrapped watching source returns
// only once the value is stacked and installed, or with the error that rejected it.

import (
	"context"
	"errors"

	"github.com/vimeo/dials"
	"github.com/vimeo/dials/transform"
	"github.com/vimeo/dials/zzverif"
)

type c04wcfg struct {
	A int64
	B uint16
}

var errC04Invalid = errors.New("c04wcfg: invalid")

// valid iff A is not negative: an arbitrary function of the stacked value.
func (c *c04wcfg) Verify() error {
	if c.A < 0 {
		return errC04Invalid
	}
	return nil
}

// HarnessC04Wrapped: two blocking reports of arbitrary validity through a transforming source.
func HarnessC04Wrapped() {
	inner := &c20watcher{c20inner{a: "1"}}
	src := NewTransformingSource(inner, &transform.StringCastingMangler{})
	ctx, cancel := context.WithCancel(context.Background())
	defer cancel()
	def := c04wcfg{}
	seenErr := 0
	p := dials.Params[c04wcfg]{OnWatchedError: func(ctx context.Context, err error, old, new *c04wcfg) { seenErr++ }}
	d, err := p.Config(ctx, &def, src)
	zzverif.Assert(err == nil, "C04 Config failed on a valid stack through a transforming watcher")
	if err != nil {
		return
	}
	cur := int64(1)
	wantErr := 0
	for i := 0; i < 2; i++ {
		v := zzverif.Int64("v" + string(rune('0'+i)))
		before, bser := d.ViewVersion()
		e := inner.wa.BlockingReportNewValue(ctx, inner.fill(inner.t, zzverif.Literal(v, zzverif.StyleDecimal), ""))
		after, aser := d.ViewVersion()
		if v < 0 {
			zzverif.Assert(e != nil && errors.Is(e, errC04Invalid), "C04 a blocking report of an invalid value through a wrapper did not return the Verify error")
			zzverif.Assert(after == before && aser == bser, "C04 a rejected update changed the view or the serial")
			wantErr++
		} else {
			zzverif.Assert(e == nil, "C07 a blocking report of a valid value through a wrapper failed")
			zzverif.Assert(after.A == v, "C07 a blocking report through a wrapper returned before its value was installed")
			cur = v
		}
		zzverif.Assert(d.View().A == cur, "C04 the view is not the last valid stack")
	}
	zzverif.Quiesce()
	zzverif.Assert(seenErr == wantErr, "C04 OnWatchedError was not called exactly once per rejected update")
	zzverif.Reached("c04-wrapped-end")
}
