package sourcewrap

import (
	"context"
	"reflect"

	"github.com/vimeo/dials"
	"github.com/vimeo/dials/transform"
	"github.com/vimeo/dials/zzverif"
)

type C20Emb struct {
	Level int8
	Inner struct{ K string }
	Other struct{ N int8 } // a second nested struct, of another type
	Tags  []string
	// a nested struct (behind scalar fields) that itself embeds a struct: its translated type
	// differs from its own type
	Deep struct {
		C20DeepBase
		Z int8
	}
}

type C20DeepBase struct{ Q int8 }

type c20cfgE struct {
	Name string
	C20Emb
	Last uint8
}

// c20byname fills hoisted or nested leaves of whatever (translated) type it is handed, by name.
type c20byname struct {
	level, k, last, q bool
	lv             int8
	t              *dials.Type
	wa             dials.WatchArgs
}

func (s *c20byname) make(t *dials.Type) reflect.Value {
	out := reflect.New(t.Type()).Elem()
	set := func(f reflect.Value, v interface{}) {
		p := reflect.New(f.Type().Elem())
		p.Elem().Set(reflect.ValueOf(v).Convert(f.Type().Elem()))
		f.Set(p)
	}
	if s.level {
		set(out.FieldByName("Level"), s.lv)
	}
	if s.k {
		in := out.FieldByName("Inner")
		in.Set(reflect.New(in.Type().Elem()))
		set(in.Elem().FieldByName("K"), "k")
	}
	if s.last {
		set(out.FieldByName("Last"), uint8(9))
	}
	if s.q {
		dp := out.FieldByName("Deep")
		dp.Set(reflect.New(dp.Type().Elem()))
		set(dp.Elem().FieldByName("Q"), int8(4))
	}
	return out
}

func (s *c20byname) Value(ctx context.Context, t *dials.Type) (reflect.Value, error) {
	return s.make(t), nil
}

func (s *c20byname) Watch(ctx context.Context, t *dials.Type, wa dials.WatchArgs) error {
	s.t, s.wa = t, wa
	return nil
}

// HarnessC20AnonFlatten: a transforming source with the anonymous-flatten mangler around a source
// that sets any subset of the hoisted leaves of an embedded struct (which itself holds a nested
// struct and a slice): the values arrive where the embedded struct's fields are, initially and on
// update; what the source leaves unset stays at its default.
func HarnessC20AnonFlatten() {
	inner := &c20byname{level: zzverif.Bool("level"), k: zzverif.Bool("k"), last: zzverif.Bool("last"), lv: zzverif.Int8("lv"), q: zzverif.Bool("q")}
	src := NewTransformingSource(inner, transform.AnonymousFlattenMangler{})
	ctx, cancel := context.WithCancel(context.Background())
	defer cancel()
	def := c20cfgE{Name: "n", C20Emb: C20Emb{Level: 1, Tags: []string{"t"}}, Last: 2}
	def.Inner.K = "dk"
	def.Deep.Q, def.Deep.Z = 1, 2
	d, err := dials.Config(ctx, &def, src)
	zzverif.Assert(err == nil, "C20 Config failed through a transforming source with the anonymous-flatten mangler")
	if err != nil {
		return
	}
	chk := func(when string) {
		got := d.View()
		wantLevel, wantK, wantLast := int8(1), "dk", uint8(2)
		if inner.level {
			wantLevel = inner.lv
		}
		if inner.k {
			wantK = "k"
		}
		if inner.last {
			wantLast = 9
		}
		zzverif.Assert(got.Level == wantLevel && got.Inner.K == wantK && got.Last == wantLast, "C20 "+when+": a leaf reported through the anonymous-flatten wrapper did not arrive (or an unset one lost its default)")
		wantQ := int8(1)
		if inner.q {
			wantQ = 4
		}
		zzverif.Assert(got.Deep.Q == wantQ && got.Deep.Z == 2, "C20 "+when+": a leaf of a struct embedded inside a nested struct of the embedded struct did not arrive through the anonymous-flatten wrapper (or an unset one lost its default)")
		zzverif.Assert(len(got.Tags) == 1 && got.Name == "n", "C20 "+when+": a leaf the wrapped source left unset lost its default")
	}
	chk("initial value")
	inner.level, inner.k = !inner.level, !inner.k
	e := inner.wa.BlockingReportNewValue(ctx, inner.make(inner.t))
	zzverif.Assert(e == nil, "C20 a blocking update through the wrapper failed")
	chk("update")
	zzverif.Reached("c20-anon-end")
}

// HarnessC20BlankConcurrent: two overlapping SetSource calls on one Blank, one with a plain
// source and one with a watching source. Once the watching source has been accepted it owns the
// slot: the view shows its value, whichever call finished last, and no plain source replaces it.
func HarnessC20BlankConcurrent() {
	b := &Blank{}
	ctx, cancel := context.WithCancel(context.Background())
	defer cancel()
	def := c20cfg{A: 1}
	d, err := dials.Config(ctx, &def, b)
	zzverif.Assert(err == nil, "C20 Config failed with an empty Blank")
	if err != nil {
		return
	}
	w := &c20plainWatcher{c20plain: c20plain{a: 20}}
	var errP error
	done := make(chan struct{})
	go func() {
		defer close(done)
		errP = b.SetSource(ctx, &c20plain{a: 10})
	}()
	errW := b.SetSource(ctx, w)
	<-done
	zzverif.Assert(errW == nil, "C20 SetSource of a watching source failed although no watching source was installed before")
	if errW == nil {
		zzverif.Assert(w.watched, "C20 SetSource of a watching source did not call Watch")
		zzverif.Assert(d.View().A == 20, "C20 a plain source replaced the watching inner source (the view does not show the watcher's value)")
		if errP != nil {
			zzverif.Assert(d.View().A == 20, "C20 a refused SetSource changed the view")
		}
		e3 := b.SetSource(ctx, &c20plain{a: 30})
		zzverif.Assert(e3 != nil && d.View().A == 20, "C20 Blank replaced a watching inner source")
	}
	zzverif.Reached("c20-blank-conc-end")
}

type c20cfgF struct {
	Name string
	DB   struct {
		Host string
		TLS  struct{ Cert string }
		Pool int8
	}
}

// c20flat fills the flattened leaves (DBHost, DBTLSCert, DBPool, Name) of whatever type it is
// handed, by name.
type c20flat struct {
	host, cert, pool, name bool
	t                      *dials.Type
	wa                     dials.WatchArgs
}

func (s *c20flat) make(t *dials.Type) reflect.Value {
	out := reflect.New(t.Type()).Elem()
	set := func(n string, v interface{}) {
		f := out.FieldByName(n)
		if !f.IsValid() {
			zzverif.Fail("C20 the flattened type has no field " + n)
			return
		}
		p := reflect.New(f.Type().Elem())
		p.Elem().Set(reflect.ValueOf(v).Convert(f.Type().Elem()))
		f.Set(p)
	}
	if s.host {
		set("DBHost", "h")
	}
	if s.cert {
		set("DBTLSCert", "c")
	}
	if s.pool {
		set("DBPool", int8(4))
	}
	if s.name {
		set("Name", "n")
	}
	return out
}

func (s *c20flat) Value(ctx context.Context, t *dials.Type) (reflect.Value, error) {
	return s.make(t), nil
}

func (s *c20flat) Watch(ctx context.Context, t *dials.Type, wa dials.WatchArgs) error {
	s.t, s.wa = t, wa
	return nil
}

// HarnessC20Flatten: a transforming source with the flatten mangler: any subset of the flattened
// leaves (a leaf ahead of an unset inner struct among them) arrives at the nested place, initially
// and on update.
func HarnessC20Flatten() {
	inner := &c20flat{host: zzverif.Bool("host"), cert: zzverif.Bool("cert"), pool: zzverif.Bool("pool"), name: zzverif.Bool("name")}
	src := NewTransformingSource(inner, transform.DefaultFlattenMangler())
	ctx, cancel := context.WithCancel(context.Background())
	defer cancel()
	def := c20cfgF{Name: "dn"}
	def.DB.Host, def.DB.TLS.Cert, def.DB.Pool = "dh", "dc", 1
	d, err := dials.Config(ctx, &def, src)
	zzverif.Assert(err == nil, "C20 Config failed through a transforming source with the flatten mangler")
	if err != nil {
		return
	}
	chk := func(when string) {
		got := d.View()
		w := func(set bool, a, b string) string {
			if set {
				return a
			}
			return b
		}
		wantPool := int8(1)
		if inner.pool {
			wantPool = 4
		}
		zzverif.Assert(got.DB.Host == w(inner.host, "h", "dh") && got.DB.TLS.Cert == w(inner.cert, "c", "dc") && got.DB.Pool == wantPool && got.Name == w(inner.name, "n", "dn"),
			"C20 "+when+": a leaf reported through the flatten wrapper did not arrive at its nested place (or an unset one lost its default)")
	}
	chk("initial value")
	inner.host, inner.cert = !inner.host, !inner.cert
	e := inner.wa.BlockingReportNewValue(ctx, inner.make(inner.t))
	zzverif.Assert(e == nil, "C20 a blocking update through the wrapper failed")
	chk("update")
	zzverif.Reached("c20-flatten-end")
}
