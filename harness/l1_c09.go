package dials

import (
	"reflect"
	"context"
	"errors"
	"strconv"

	"github.com/vimeo/dials/zzverif"
)

var errSource = errors.New("hsrc: source problem")

// c09scenario: all four Delay x CallGlobalCallbacksAfterVerificationEnabled combinations, with or
// without a watching source, k events drawn from {update, source error, EnableVerification}.
func c09scenario(k int, watching bool) {
	verifyLog = nil
	log := &cbLog{}
	// SkipInitialVerification is not a delay: with it (and no delay) re-stacks are verified from
	// the start and nothing is withheld
	flags := zzverif.Choose("flags", 6)
	delay, suppress := flags&1 != 0, flags&2 != 0
	skip := flags >= 4
	if skip {
		delay, suppress = false, flags == 5
	}
	def := hcfg{}
	initBad := zzverif.Bool("initBad")
	init := hval{setA: true, a: 0, setBad: true, bad: initBad}
	var src Source
	var ws *hwsrc
	if watching {
		ws = &hwsrc{hsrc{name: "s0", init: init}}
		src = ws
	} else {
		src = &hsrc{name: "s0", init: init}
	}
	p := log.params()
	p.DelayInitialVerification = delay
	p.SkipInitialVerification = skip
	p.CallGlobalCallbacksAfterVerificationEnabled = suppress
	ctx, cancel := context.WithCancel(context.Background())
	defer cancel()
	d, err := p.Config(ctx, &def, src)
	if err != nil {
		zzverif.Assert(zzverif.And(initBad, !delay && !skip), "C04 Config failed although verification is delayed or skipped or the stack is valid")
		return
	}
	zzverif.Assert(zzverif.Not(zzverif.And(initBad, !delay && !skip)), "C04 Config accepted an initial stack that fails Verify")
	delayInForce := delay
	if delay {
		zzverif.Assert(len(verifyLog) == 0, "C09 Verify was invoked before EnableVerification although verification is delayed")
	}
	wantNew, wantErr := 0, 0
	for i := 0; i < k; i++ {
		nev := 1
		if watching {
			nev = 3
		}
		ev := zzverif.Choose("ev"+strconv.Itoa(i), nev)
		switch ev {
		case 0: // EnableVerification
			nv := len(verifyLog)
			cur, cser := d.ViewVersion()
			// once verification is on (never delayed, or enabled successfully before with watching
			// sources) a further call must leave it on whatever Verify would say now: Verify gets an
			// external reason to fail during such a call. What the call returns then is only
			// asserted where it is documented (no delay: no-op success); in the other case the
			// later events decide (re-stacks must still be verified).
			extFail := !delayInForce && (!delay || watching)
			// while the delay is in force (no watchers: the fast path) Verify may also fail for an
			// external reason: that attempt fails, the delay stays, a later attempt re-verifies
			extRetry := delay && delayInForce && !watching && zzverif.Choose("extfail"+strconv.Itoa(i), 2) == 1
			verifyExternalFail = extFail || extRetry
			cfg, ser, eerr := d.EnableVerification(ctx)
			verifyExternalFail = false
			if !delay {
				zzverif.Assert(eerr == nil && cfg == cur, "C09 EnableVerification without delayed verification must return the current config")
				zzverif.Assert(len(verifyLog) == nv, "C09 EnableVerification without delayed verification must not verify")
				break
			}
			if extRetry {
				zzverif.Assert(eerr != nil, "C09 EnableVerification succeeded although Verify failed")
				zzverif.Assert(len(verifyLog) == nv+1, "C09 EnableVerification did not verify the installed config exactly once (a retry after a failure must verify again)")
				break
			}
			if delayInForce {
				zzverif.Assert(len(verifyLog) == nv+1, "C09 EnableVerification did not verify the installed config exactly once")
				if len(verifyLog) == nv+1 {
					zzverif.Assert(verifyLog[nv].A == cur.A && verifyLog[nv].Bad == cur.Bad, "C09 EnableVerification verified something other than the installed config")
				}
				if cur.Bad {
					zzverif.Assert(eerr != nil, "C09 EnableVerification succeeded on a config that fails Verify")
					zzverif.Assert(eerr == nil || errors.Is(eerr, errInvalid), "C09 EnableVerification returned an error that is not the Verify error")
				} else {
					zzverif.Assert(eerr == nil, "C09 EnableVerification failed on a valid config")
					zzverif.Assert(cfg == cur, "C09 EnableVerification did not return the config it verified")
					zzverif.Assert(ser.s == cser.s && ser.cfg == cur, "C09 EnableVerification did not return the serial of the config it verified")
					delayInForce = false
				}
			} else if !extFail || eerr == nil {
				zzverif.Assert(eerr == nil && cfg == cur, "C09 a repeated EnableVerification after success must succeed with the current config")
			}
		case 1: // update
			bad := zzverif.Bool("u" + strconv.Itoa(i) + "_bad")
			nv := len(verifyLog)
			before, bser := d.ViewVersion()
			rerr := ws.wa.BlockingReportNewValue(ctx, mkValue(ws.t, hval{setA: true, a: int64(i + 1), setBad: true, bad: bad}))
			after, aser := d.ViewVersion()
			if delayInForce {
				zzverif.Assert(len(verifyLog) == nv, "C09 Verify was invoked on a re-stack while verification is delayed")
				zzverif.Assert(rerr == nil && aser.s == bser.s+1 && after.A == int64(i+1), "C09 an update was not installed while verification is delayed")
				if !suppress {
					wantNew++
				}
			} else {
				zzverif.Assert(len(verifyLog) == nv+1, "C09 a re-stack was not verified although verification is active")
				if bad {
					zzverif.Assert(rerr != nil && after == before, "C04 an invalid update was installed")
					wantErr++
				} else {
					zzverif.Assert(rerr == nil && aser.s == bser.s+1, "C04 a valid update was rejected")
					wantNew++
				}
			}
		case 2: // source-reported error
			e := ws.wa.ReportError(ctx, errSource)
			zzverif.Assert(e == nil, "C08 ReportError failed with a live context")
			if !(delayInForce && suppress) {
				wantErr++
			}
		}
		zzverif.Quiesce()
		zzverif.Assert(len(log.newCfg) == wantNew, "C09 OnNewConfig delivery does not match the suppression rule (withheld only while delayed and suppressing)")
		zzverif.Assert(len(log.watched) == wantErr, "C09 OnWatchedError delivery does not match the suppression rule (withheld only while delayed and suppressing)")
	}
	zzverif.Reached("c09-end")
}

// HarnessC09Quick: watching source, 3 events.
func HarnessC09Quick() { c09scenario(3, true) }

// HarnessC09NoWatcher: static source only (EnableVerification fast path), 2 calls.
func HarnessC09NoWatcher() { c09scenario(2, false) }

// HarnessC09Thorough: 4 events.
func HarnessC09Thorough() { c09scenario(4, true) }

// HarnessC09Race: EnableVerification racing with an in-flight update that makes the config
// invalid. Whatever the order, a successful enable means the installed config was verified: after
// everything settles the view is valid, and the returned config is valid.
func HarnessC09Race() {
	verifyLog = nil
	def := hcfg{}
	ws := &hwsrc{hsrc{name: "s0", init: hval{setA: true, a: 0}}}
	p := Params[hcfg]{DelayInitialVerification: true}
	ctx, cancel := context.WithCancel(context.Background())
	defer cancel()
	d, err := p.Config(ctx, &def, ws)
	if err != nil {
		zzverif.Fail("C04 Config failed with delayed verification")
		return
	}
	bad := zzverif.Bool("bad")
	done := make(chan struct{})
	go func() {
		defer close(done)
		_ = ws.wa.ReportNewValue(ctx, mkValue(ws.t, hval{setA: true, a: 1, setBad: true, bad: bad}))
	}()
	cfg, ser, eerr := d.EnableVerification(ctx)
	<-done
	zzverif.Quiesce()
	final, fser := d.ViewVersion()
	if eerr == nil {
		zzverif.Assert(cfg != nil && !cfg.Bad, "C09 EnableVerification succeeded but returned a config that fails Verify")
		zzverif.Assert(!final.Bad, "C09 EnableVerification succeeded although the installed config fails Verify (an unverified config is visible with verification on)")
		zzverif.Assert(ser.s <= fser.s, "C09 EnableVerification returned a serial from the future")
	} else {
		zzverif.Assert(errors.Is(eerr, errInvalid), "C09 EnableVerification returned an error that is not the Verify error")
		zzverif.Assert(bad, "C09 EnableVerification failed although every config is valid")
	}
	zzverif.Reached("c09-race-end")
}

// HarnessC09EnableCancel: an EnableVerification call abandoned by its caller (its context ends at
// an arbitrary moment) must not wedge the monitor: a retry is answered, later re-stacks are
// installed and verified.
func HarnessC09EnableCancel() {
	verifyLog = nil
	def := hcfg{}
	ws := &hwsrc{hsrc{name: "s0", init: hval{setA: true, a: 0}}}
	p := Params[hcfg]{DelayInitialVerification: true}
	ctx, cancel := context.WithCancel(context.Background())
	defer cancel()
	d, err := p.Config(ctx, &def, ws)
	if err != nil {
		zzverif.Fail("C04 Config failed with delayed verification")
		return
	}
	if zzverif.Choose("successFirst", 2) == 1 {
		// verification is already on when the abandoned call arrives
		_, _, e0 := d.EnableVerification(ctx)
		zzverif.Assert(e0 == nil, "C09 EnableVerification failed on a valid config")
	}
	ectx, ecancel := context.WithCancel(ctx)
	go func() { ecancel() }()
	_, _, _ = d.EnableVerification(ectx)
	zzverif.Quiesce()
	_, _, e2 := d.EnableVerification(ctx)
	zzverif.Assert(e2 == nil, "C09 EnableVerification retried after an abandoned call failed on a valid config")
	e := ws.wa.BlockingReportNewValue(ctx, mkValue(ws.t, hval{setA: true, a: 2}))
	zzverif.Assert(e == nil && d.View().A == 2, "C09 after a caller abandoned EnableVerification new configs are no longer installed (monitor wedged)")
	bad := ws.wa.BlockingReportNewValue(ctx, mkValue(ws.t, hval{setA: true, a: 3, setBad: true, bad: true}))
	zzverif.Assert(bad != nil && d.View().A == 2, "C09 after EnableVerification succeeded an invalid re-stack was installed")
	zzverif.Reached("c09-enable-cancel-end")
}

// HarnessC09NoVerify: a config type without a Verify method under delayed verification with the
// suppress option: EnableVerification still ends the delay (there is nothing to verify, so it
// succeeds), and from then on the global callbacks are delivered.
func HarnessC09NoVerify() {
	lim := 5
	def := hcfgL{Limit: &lim}
	src := &c03ssrc{mk: func(t *Type) reflect.Value { return reflect.New(t.Type()).Elem() }}
	ctx, cancel := context.WithCancel(context.Background())
	defer cancel()
	nErr, nNew := 0, 0
	p := Params[hcfgL]{
		OnNewConfig:              func(context.Context, *hcfgL, *hcfgL) { nNew++ },
		OnWatchedError:           func(context.Context, error, *hcfgL, *hcfgL) { nErr++ },
		DelayInitialVerification: true,
		CallGlobalCallbacksAfterVerificationEnabled: zzverif.Choose("suppress", 2) == 1,
	}
	suppress := p.CallGlobalCallbacksAfterVerificationEnabled
	d, err := p.Config(ctx, &def, src)
	if err != nil {
		zzverif.Fail("C04 Config failed on a valid stack")
		return
	}
	report := func(a int64) {
		v := reflect.New(src.t.Type()).Elem()
		v.FieldByName("A").Set(reflect.ValueOf(&a))
		e := src.wa.BlockingReportNewValue(ctx, v)
		zzverif.Assert(e == nil && d.View().A == a, "C09 an update was not installed")
	}
	report(1)
	zzverif.Quiesce()
	wantNew := 1
	if suppress {
		wantNew = 0
	}
	zzverif.Assert(nNew == wantNew, "C09 OnNewConfig delivery before EnableVerification does not match the suppression rule")
	cur, cser := d.ViewVersion()
	cfg, ser, eerr := d.EnableVerification(ctx)
	zzverif.Assert(eerr == nil && cfg == cur && ser.s == cser.s, "C09 EnableVerification on a config type without Verify did not succeed with the installed config")
	report(2)
	zzverif.Assert(src.wa.ReportError(ctx, errSource) == nil, "C08 ReportError failed with a live context")
	zzverif.Quiesce()
	zzverif.Assert(nNew == wantNew+1, "C09 OnNewConfig is still withheld after EnableVerification succeeded (config type without Verify)")
	zzverif.Assert(nErr == 1, "C09 OnWatchedError is still withheld after EnableVerification succeeded (config type without Verify)")
	zzverif.Reached("c09-noverify-end")
}
