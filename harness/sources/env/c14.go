package env

// C14 (environment source): either name sets the field, both together are an error.

import (
	"strconv"
	"context"
	"reflect"
	"strings"

	"github.com/vimeo/dials"
	"github.com/vimeo/dials/ptrify"
	"github.com/vimeo/dials/zzverif"
)

type c14db struct {
	Host string `dials:"host" dialsalias:"hostname"`
	Port int16  `dials:"port"`
}

type c14cfg struct {
	Name  string   `dials:"name" dialsalias:"oldname"`
	DB    c14db    `dials:"db"`
	Tags  []string `dials:"tags" dialsalias:"labels"`
	Memo  *c14db   `dials:"memo" dialsalias:"cache"`
	Level int8     `dials:"level" dialsenv:"LVL" dialsenvalias:"OLD_LVL"`
	Plain int8     `dials:"plain"`
	Ports []int16  `dials:"ports" dialsalias:"listen_ports"`
}

// one aliased leaf: its two variable names and where to find it
type c14leaf struct {
	primary, alias string
	field          string // error text must mention this
}

var c14vars = []string{"NAME", "OLDNAME", "DB_HOST", "DB_HOSTNAME", "DB_PORT", "TAGS", "LABELS", "MEMO_HOST", "CACHE_HOST", "MEMO_HOSTNAME", "CACHE_HOSTNAME", "MEMO_PORT", "CACHE_PORT", "LVL", "OLD_LVL", "LEVEL", "PLAIN", "HOSTNAME", "HOST", "PORTS", "LISTEN_PORTS"}

func c14clear() {
	for _, v := range c14vars {
		zzverif.Unsetenv(v)
	}
}

// pattern: 0 neither, 1 primary, 2 alias, 3 both
var c14fixed bool // the leaf patterns of the basic harness are pinned to "neither" in the nested one

func c14set(name string, l c14leaf, val string) int {
	if c14fixed && name != "memo" {
		return 0
	}
	p := zzverif.Choose("pat_"+name, 4)
	if p&1 != 0 {
		zzverif.Setenv(l.primary, val)
	}
	if p&2 != 0 {
		zzverif.Setenv(l.alias, val+"")
	}
	return p
}

func c14run(nested bool) {
	c14clear()
	defer c14clear()
	c14fixed = nested
	// a bare HOSTNAME / HOST must never set the nested field
	zzverif.Setenv("HOSTNAME", "decoy")
	zzverif.Setenv("HOST", "decoy")
	pName := c14set("name", c14leaf{"NAME", "OLDNAME", "Name"}, "n")
	pHost := c14set("dbhost", c14leaf{"DB_HOST", "DB_HOSTNAME", "Host"}, "h")
	pTags := c14set("tags", c14leaf{"TAGS", "LABELS", "Tags"}, "a,b")
	pMemo := c14set("memo", c14leaf{"MEMO_PORT", "CACHE_PORT", "Memo"}, "7")
	pLvl := c14set("lvl", c14leaf{"LVL", "OLD_LVL", "Level"}, "3")
	plain := !nested && zzverif.Choose("plain", 2) == 1
	if plain {
		zzverif.Setenv("PLAIN", "5")
	}
	// the aliased leaf inside the aliased struct: none, or one of its four names, or two of them
	mh := 0
	if nested {
		mh = zzverif.Choose("memohost", 7)
	}
	switch mh {
	case 1:
		zzverif.Setenv("MEMO_HOST", "mh")
	case 2:
		zzverif.Setenv("MEMO_HOSTNAME", "mh")
	case 3:
		zzverif.Setenv("CACHE_HOST", "mh")
	case 4:
		zzverif.Setenv("CACHE_HOSTNAME", "mh")
	case 5:
		zzverif.Setenv("MEMO_HOST", "mh")
		zzverif.Setenv("MEMO_HOSTNAME", "mh")
	case 6:
		zzverif.Setenv("MEMO_HOST", "mh")
		zzverif.Setenv("CACHE_HOSTNAME", "mh")
	}
	memoPrimary := pMemo&1 != 0 || mh == 1 || mh == 2 || mh == 5 || mh == 6
	memoAlias := pMemo&2 != 0 || mh == 3 || mh == 4 || mh == 6
	memoBoth := (memoPrimary && memoAlias) || mh == 5
	// an aliased slice of integers, possibly given as the empty string (which is a value)
	pPorts := 0
	if nested {
		pPorts = zzverif.Choose("ports", 5)
	}
	switch pPorts {
	case 1:
		zzverif.Setenv("PORTS", "1,2")
	case 2:
		zzverif.Setenv("LISTEN_PORTS", "3")
	case 3:
		zzverif.Setenv("PORTS", "")
		zzverif.Setenv("LISTEN_PORTS", "3")
	case 4:
		zzverif.Setenv("PORTS", "")
	}
	t := dials.NewType(ptrify.Pointerify(reflect.TypeOf(c14cfg{}), reflect.Value{}))
	val, err := (&Source{}).Value(context.Background(), t)
	anyBoth := pName == 3 || pHost == 3 || pTags == 3 || memoBoth || pLvl == 3 || pPorts == 3
	if err != nil {
		zzverif.Assert(anyBoth, "C14 the environment source failed although no field was given under both its names")
		// the error names a field that was supplied twice
		msg := err.Error()
		named := (pName == 3 && strings.Contains(msg, "Name")) || (pHost == 3 && strings.Contains(msg, "Host")) || (pTags == 3 && strings.Contains(msg, "Tags")) ||
			(memoBoth && (strings.Contains(msg, "Memo") || strings.Contains(msg, "Port") || strings.Contains(msg, "Host"))) || (pLvl == 3 && strings.Contains(msg, "Level")) ||
			(pPorts == 3 && strings.Contains(msg, "Ports"))
		if !zzverif.Symbolic() {
			zzverif.Assert(named, "C14 the both-names error does not name the field: "+msg)
		}
		zzverif.Reached("c14-both-error")
		return
	}
	zzverif.Assert(!anyBoth, "C14 a field supplied under both its primary and alias name did not produce an error")
	f := func(n string) reflect.Value { return val.FieldByName(n) }
	chk := func(p int, v reflect.Value, what string) bool {
		zzverif.Assert(v.IsNil() == (p == 0), "C14 "+what+": field set although neither name was supplied, or unset although one was")
		return p != 0 && !v.IsNil()
	}
	if chk(pName, f("Name"), "NAME/OLDNAME") {
		zzverif.Assert(f("Name").Elem().String() == "n", "C14 NAME/OLDNAME: wrong value")
	}
	dbSet := pHost != 0
	zzverif.Assert(f("DB").IsNil() == !dbSet, "C14 DB_HOST/DB_HOSTNAME: nested struct set/unset wrongly")
	if dbSet && !f("DB").IsNil() {
		h := f("DB").Elem().FieldByName("Host")
		if chk(pHost, h, "DB_HOST/DB_HOSTNAME") {
			zzverif.Assert(h.Elem().String() == "h", "C14 DB_HOST/DB_HOSTNAME: wrong value")
		}
	}
	zzverif.Assert(f("Tags").IsNil() == (pTags == 0), "C14 TAGS/LABELS: slice field set/unset wrongly")
	if pTags != 0 && !f("Tags").IsNil() {
		zzverif.Assert(f("Tags").Len() == 2 && f("Tags").Index(1).String() == "b", "C14 TAGS/LABELS: wrong value")
	}
	zzverif.Assert(f("Memo").IsNil() == (pMemo == 0 && mh == 0), "C14 MEMO_*/CACHE_*: aliased struct field set although none of its variables was supplied, or unset although one was")
	if pMemo != 0 && !f("Memo").IsNil() {
		pv := f("Memo").Elem().FieldByName("Port")
		zzverif.Assert(!pv.IsNil() && pv.Elem().Int() == 7, "C14 MEMO_PORT/CACHE_PORT: wrong value")
	}
	if !f("Memo").IsNil() {
		hv := f("Memo").Elem().FieldByName("Host")
		zzverif.Assert(hv.IsNil() == (mh == 0), "C14 an aliased leaf inside an aliased struct (MEMO_HOST / MEMO_HOSTNAME / CACHE_HOST / CACHE_HOSTNAME) is set although none of its names was supplied, or unset although one was")
		if mh != 0 && !hv.IsNil() {
			zzverif.Assert(hv.Elem().String() == "mh", "C14 aliased leaf inside an aliased struct: wrong value")
		}
	}
	zzverif.Assert(f("Ports").IsNil() == (pPorts == 0), "C14 PORTS/LISTEN_PORTS: aliased integer slice set/unset wrongly (the empty string is a value)")
	if !f("Ports").IsNil() {
		want := map[int]int{1: 2, 2: 1, 4: 0}[pPorts]
		zzverif.Assert(f("Ports").Len() == want, "C14 PORTS/LISTEN_PORTS: wrong value")
	}
	if chk(pLvl, f("Level"), "LVL/OLD_LVL") {
		zzverif.Assert(f("Level").Elem().Int() == 3, "C14 LVL/OLD_LVL: wrong value")
	}
	zzverif.Assert(f("Plain").IsNil() == !plain, "C14 an unaliased field was affected by aliases")
	zzverif.Reached("c14-end")
}

func HarnessC14Env() { c14run(false) }

// HarnessC14EnvNested: an aliased leaf inside an aliased struct under each of its four names, and
// an aliased integer slice given as the empty string.
func HarnessC14EnvNested() { c14run(true) }

// ---- aliases on fields whose primary name is implicit (from the Go field name, or from the
// `dials` tag for a source-specific alias)

type c14nested2 struct {
	ListenAddr string `dialsalias:"addr"`
}

type c14cfg2 struct {
	MaxConns int8       `dialsalias:"connection_limit"`
	LogLevel string     `dials:"log_level" dialsenvalias:"VERBOSITY"`
	Server   c14nested2 `dials:"server"`
	// an explicit source-specific primary name next to a generic alias
	Region string `dials:"region" dialsalias:"zone" dialsenv:"THE_REGION"`
}

func HarnessC14EnvImplicit() {
	vars := []string{"MAX_CONNS", "CONNECTION_LIMIT", "LOG_LEVEL", "VERBOSITY", "SERVER_LISTEN_ADDR", "SERVER_ADDR", "THE_REGION", "ZONE", "REGION"}
	clear := func() {
		for _, v := range vars {
			zzverif.Unsetenv(v)
		}
	}
	clear()
	defer clear()
	pConns := c14set("conns", c14leaf{"MAX_CONNS", "CONNECTION_LIMIT", "MaxConns"}, "4")
	pLog := c14set("log", c14leaf{"LOG_LEVEL", "VERBOSITY", "LogLevel"}, "dbg")
	pAddr := c14set("addr", c14leaf{"SERVER_LISTEN_ADDR", "SERVER_ADDR", "ListenAddr"}, ":80")
	pRegion := c14set("region", c14leaf{"THE_REGION", "ZONE", "Region"}, "eu")
	t := dials.NewType(ptrify.Pointerify(reflect.TypeOf(c14cfg2{}), reflect.Value{}))
	val, err := (&Source{}).Value(context.Background(), t)
	anyBoth := pConns == 3 || pLog == 3 || pAddr == 3 || pRegion == 3
	if err != nil {
		zzverif.Assert(anyBoth, "C14 the environment source failed although no field was given under both its names")
		msg := err.Error()
		named := (pConns == 3 && strings.Contains(msg, "MaxConns")) || (pLog == 3 && strings.Contains(msg, "LogLevel")) || (pAddr == 3 && strings.Contains(msg, "ListenAddr")) || (pRegion == 3 && strings.Contains(msg, "Region"))
		if !zzverif.Symbolic() {
			zzverif.Assert(named, "C14 the both-names error does not name the field: "+msg)
		}
		zzverif.Reached("c14-implicit-both-error")
		return
	}
	zzverif.Assert(!anyBoth, "C14 a field (with an implicit primary name) supplied under both its primary and alias name did not produce an error")
	f := func(n string) reflect.Value { return val.FieldByName(n) }
	zzverif.Assert(f("MaxConns").IsNil() == (pConns == 0), "C14 MAX_CONNS/CONNECTION_LIMIT (alias without a dials tag): field set although neither name was supplied, or unset although one was")
	if pConns != 0 && !f("MaxConns").IsNil() {
		zzverif.Assert(f("MaxConns").Elem().Int() == 4, "C14 MAX_CONNS/CONNECTION_LIMIT: wrong value")
	}
	zzverif.Assert(f("LogLevel").IsNil() == (pLog == 0), "C14 LOG_LEVEL/VERBOSITY (source-specific alias, generic primary tag): field set/unset wrongly")
	if pLog != 0 && !f("LogLevel").IsNil() {
		zzverif.Assert(f("LogLevel").Elem().String() == "dbg", "C14 LOG_LEVEL/VERBOSITY: wrong value")
	}
	zzverif.Assert(f("Server").IsNil() == (pAddr == 0), "C14 SERVER_LISTEN_ADDR/SERVER_ADDR: nested struct set/unset wrongly")
	if pAddr != 0 && !f("Server").IsNil() {
		a := f("Server").Elem().FieldByName("ListenAddr")
		zzverif.Assert(!a.IsNil() && a.Elem().String() == ":80", "C14 SERVER_LISTEN_ADDR/SERVER_ADDR: wrong value")
	}
	zzverif.Assert(f("Region").IsNil() == (pRegion == 0), "C14 THE_REGION/ZONE (explicit dialsenv name next to a generic alias): field set although neither name was supplied, or unset although one was")
	if pRegion != 0 && !f("Region").IsNil() {
		zzverif.Assert(f("Region").Elem().String() == "eu", "C14 THE_REGION/ZONE: wrong value")
	}
	zzverif.Reached("c14-implicit-end")
}

// HarnessC14EnvTwice: one Source read repeatedly while the environment moves a field from one of
// its names to the other (and then drops it): every read reflects the environment at that time.
func HarnessC14EnvTwice() {
	c14clear()
	defer c14clear()
	t := dials.NewType(ptrify.Pointerify(reflect.TypeOf(c14cfg{}), reflect.Value{}))
	src := &Source{}
	names := [2]string{"NAME", "OLDNAME"}
	prev := ""
	for round := 0; round < 3; round++ {
		mode := zzverif.Choose("mode"+strconv.Itoa(round), 3) // neither, primary, alias
		if prev != "" {
			zzverif.Unsetenv(prev)
			prev = ""
		}
		want := "v" + strconv.Itoa(round)
		if mode != 0 {
			prev = names[mode-1]
			zzverif.Setenv(prev, want)
		}
		val, err := src.Value(context.Background(), t)
		zzverif.Assert(err == nil, "C14 the environment source failed although no field was given under both its names (the same Source read again)")
		if err != nil {
			return
		}
		n := val.FieldByName("Name")
		zzverif.Assert(n.IsNil() == (mode == 0), "C14 NAME/OLDNAME: field set although neither name is supplied now, or unset although one is (the same Source read again)")
		if mode != 0 && !n.IsNil() {
			zzverif.Assert(n.Elem().String() == want, "C14 NAME/OLDNAME: wrong value (the same Source read again)")
		}
	}
	zzverif.Reached("c14-twice-end")
}
