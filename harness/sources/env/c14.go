package env

// C14 (environment source): either name sets the field, both together are an error.

import (
	"context"
	"reflect"
	"strings"

	"github.com/vimeo/dials"
	"github.com/vimeo/dials/ptrify"
	"github.com/vimeo/dials/zzverif"
)

type c14db struct {
	Host string `dials:"host" dialsalias:"hostname"`
	Port int16  `dials:"port"`
}

type c14cfg struct {
	Name  string   `dials:"name" dialsalias:"oldname"`
	DB    c14db    `dials:"db"`
	Tags  []string `dials:"tags" dialsalias:"labels"`
	Memo  *c14db   `dials:"memo" dialsalias:"cache"`
	Level int8     `dials:"level" dialsenv:"LVL" dialsenvalias:"OLD_LVL"`
	Plain int8     `dials:"plain"`
}

// one aliased leaf: its two variable names and where to find it
type c14leaf struct {
	primary, alias string
	field          string // error text must mention this
}

var c14vars = []string{"NAME", "OLDNAME", "DB_HOST", "DB_HOSTNAME", "DB_PORT", "TAGS", "LABELS", "MEMO_HOST", "CACHE_HOST", "MEMO_HOSTNAME", "CACHE_HOSTNAME", "MEMO_PORT", "CACHE_PORT", "LVL", "OLD_LVL", "LEVEL", "PLAIN", "HOSTNAME", "HOST"}

func c14clear() {
	for _, v := range c14vars {
		zzverif.Unsetenv(v)
	}
}

// pattern: 0 neither, 1 primary, 2 alias, 3 both
func c14set(name string, l c14leaf, val string) int {
	p := zzverif.Choose("pat_"+name, 4)
	if p&1 != 0 {
		zzverif.Setenv(l.primary, val)
	}
	if p&2 != 0 {
		zzverif.Setenv(l.alias, val+"")
	}
	return p
}

func c14run() {
	c14clear()
	defer c14clear()
	// a bare HOSTNAME / HOST must never set the nested field
	zzverif.Setenv("HOSTNAME", "decoy")
	zzverif.Setenv("HOST", "decoy")
	pName := c14set("name", c14leaf{"NAME", "OLDNAME", "Name"}, "n")
	pHost := c14set("dbhost", c14leaf{"DB_HOST", "DB_HOSTNAME", "Host"}, "h")
	pTags := c14set("tags", c14leaf{"TAGS", "LABELS", "Tags"}, "a,b")
	pMemo := c14set("memo", c14leaf{"MEMO_PORT", "CACHE_PORT", "Memo"}, "7")
	pLvl := c14set("lvl", c14leaf{"LVL", "OLD_LVL", "Level"}, "3")
	plain := zzverif.Choose("plain", 2) == 1
	if plain {
		zzverif.Setenv("PLAIN", "5")
	}
	t := dials.NewType(ptrify.Pointerify(reflect.TypeOf(c14cfg{}), reflect.Value{}))
	val, err := (&Source{}).Value(context.Background(), t)
	anyBoth := pName == 3 || pHost == 3 || pTags == 3 || pMemo == 3 || pLvl == 3
	if err != nil {
		zzverif.Assert(anyBoth, "C14 the environment source failed although no field was given under both its names")
		// the error names a field that was supplied twice
		msg := err.Error()
		named := (pName == 3 && strings.Contains(msg, "Name")) || (pHost == 3 && strings.Contains(msg, "Host")) || (pTags == 3 && strings.Contains(msg, "Tags")) ||
			(pMemo == 3 && (strings.Contains(msg, "Memo") || strings.Contains(msg, "Port"))) || (pLvl == 3 && strings.Contains(msg, "Level"))
		if !zzverif.Symbolic() {
			zzverif.Assert(named, "C14 the both-names error does not name the field: "+msg)
		}
		zzverif.Reached("c14-both-error")
		return
	}
	zzverif.Assert(!anyBoth, "C14 a field supplied under both its primary and alias name did not produce an error")
	f := func(n string) reflect.Value { return val.FieldByName(n) }
	chk := func(p int, v reflect.Value, what string) bool {
		zzverif.Assert(v.IsNil() == (p == 0), "C14 "+what+": field set although neither name was supplied, or unset although one was")
		return p != 0 && !v.IsNil()
	}
	if chk(pName, f("Name"), "NAME/OLDNAME") {
		zzverif.Assert(f("Name").Elem().String() == "n", "C14 NAME/OLDNAME: wrong value")
	}
	dbSet := pHost != 0
	zzverif.Assert(f("DB").IsNil() == !dbSet, "C14 DB_HOST/DB_HOSTNAME: nested struct set/unset wrongly")
	if dbSet && !f("DB").IsNil() {
		h := f("DB").Elem().FieldByName("Host")
		if chk(pHost, h, "DB_HOST/DB_HOSTNAME") {
			zzverif.Assert(h.Elem().String() == "h", "C14 DB_HOST/DB_HOSTNAME: wrong value")
		}
	}
	zzverif.Assert(f("Tags").IsNil() == (pTags == 0), "C14 TAGS/LABELS: slice field set/unset wrongly")
	if pTags != 0 && !f("Tags").IsNil() {
		zzverif.Assert(f("Tags").Len() == 2 && f("Tags").Index(1).String() == "b", "C14 TAGS/LABELS: wrong value")
	}
	zzverif.Assert(f("Memo").IsNil() == (pMemo == 0), "C14 MEMO_PORT/CACHE_PORT: aliased struct field set/unset wrongly")
	if pMemo != 0 && !f("Memo").IsNil() {
		pv := f("Memo").Elem().FieldByName("Port")
		zzverif.Assert(!pv.IsNil() && pv.Elem().Int() == 7, "C14 MEMO_PORT/CACHE_PORT: wrong value")
	}
	if chk(pLvl, f("Level"), "LVL/OLD_LVL") {
		zzverif.Assert(f("Level").Elem().Int() == 3, "C14 LVL/OLD_LVL: wrong value")
	}
	zzverif.Assert(f("Plain").IsNil() == !plain, "C14 an unaliased field was affected by aliases")
	zzverif.Reached("c14-end")
}

func HarnessC14Env() { c14run() }
