package env

// C11: environment source: documented names, exact values, nothing else touched.
// C16 (type half): named scalar types do not make the source panic.

import (
	"context"
	"reflect"
	"time"

	"github.com/vimeo/dials"
	"github.com/vimeo/dials/ptrify"
	"github.com/vimeo/dials/zzverif"
)

type c11peer struct {
	Addr string
	TTL  uint8 `dials:"time-to-live"`
}

type C11Emb struct {
	Depth int8
}

type c11tls struct {
	Key string
}

type c11db struct {
	Host string
	TLS  c11tls
}

type c11cfg struct {
	DB       c11db
	Port     int16
	JSONFile string
	Peer     c11peer
	Named    int32 `dialsenv:"CUSTOM_NAME"`
	Ptr      *c11peer
	C11Emb
	Tags    []string
	Wait    time.Duration
	private int
	Skipped int `dials:"-"`
}

// every variable the documented rule derives for c11cfg, in declaration order
var c11names = []string{"DB_HOST", "DB_TLS_KEY", "PORT", "JSON_FILE", "PEER_ADDR", "PEER_TIME_TO_LIVE", "CUSTOM_NAME", "PTR_ADDR", "PTR_TIME_TO_LIVE", "DEPTH", "TAGS", "WAIT"}

func c11clear(prefix string) {
	for _, n := range c11names {
		zzverif.Unsetenv(prefix + n)
	}
	for _, n := range []string{"PORTX", "PEER", "ADDR", "JSONFILE", "NAMED", "C11_EMB_DEPTH", "PRIVATE", "SKIPPED", "EMB_DEPTH"} {
		zzverif.Unsetenv(n)
		zzverif.Unsetenv(prefix + n)
	}
}

func c11run(prefix string) {
	pfx := ""
	if prefix != "" {
		pfx = prefix + "_"
	}
	c11clear(pfx)
	defer c11clear(pfx)
	// decoys: names a wrong rule could derive must not be read
	for _, n := range []string{"PORTX", "PEER", "ADDR", "JSONFILE", "NAMED", "C11_EMB_DEPTH", "PRIVATE", "SKIPPED", "EMB_DEPTH"} {
		zzverif.Setenv(pfx+n, "99")
	}
	if prefix != "" {
		// the unprefixed names are decoys too
		zzverif.Setenv("PORT", "99")
		zzverif.Setenv("PEER_ADDR", "decoy")
		defer zzverif.Unsetenv("PORT")
		defer zzverif.Unsetenv("PEER_ADDR")
	}
	// which variables are present (symbolic subset) and their values
	has := func(n string) bool { return zzverif.Bool("has_" + n) }
	port, hPort := zzverif.Int64("port"), has("PORT")
	ttl, hTTL := zzverif.Uint64("ttl"), has("PEER_TIME_TO_LIVE")
	named, hNamed := zzverif.Int64("named"), has("CUSTOM_NAME")
	pttl, hPTTL := zzverif.Uint64("pttl"), has("PTR_TIME_TO_LIVE")
	depth, hDepth := zzverif.Int64("depth"), has("DEPTH")
	hFile, hAddr, hPAddr, hTags := has("JSON_FILE"), has("PEER_ADDR"), has("PTR_ADDR"), has("TAGS")
	hDBHost, hDBKey := has("DB_HOST"), has("DB_TLS_KEY")
	if hDBHost {
		zzverif.Setenv(pfx+"DB_HOST", "dbh")
	}
	if hDBKey {
		zzverif.Setenv(pfx+"DB_TLS_KEY", "k")
	}
	file := zzverif.Bytes("file", 2)
	zzverif.Assume(zzverif.And(zzverif.InRange(file[0], 0x20, 0x7e), zzverif.InRange(file[1], 0x20, 0x7e)))
	if hPort {
		zzverif.Setenv(pfx+"PORT", zzverif.Literal(port, zzverif.StyleDecimal))
	}
	if hFile {
		zzverif.Setenv(pfx+"JSON_FILE", file)
	}
	if hAddr {
		zzverif.Setenv(pfx+"PEER_ADDR", "a:1")
	}
	if hTTL {
		zzverif.Setenv(pfx+"PEER_TIME_TO_LIVE", zzverif.LiteralU(ttl, zzverif.StyleDecimal))
	}
	if hNamed {
		zzverif.Setenv(pfx+"CUSTOM_NAME", zzverif.Literal(named, zzverif.StyleDecimal))
	}
	if hPAddr {
		zzverif.Setenv(pfx+"PTR_ADDR", "b")
	}
	if hPTTL {
		zzverif.Setenv(pfx+"PTR_TIME_TO_LIVE", zzverif.LiteralU(pttl, zzverif.StyleDecimal))
	}
	if hDepth {
		zzverif.Setenv(pfx+"DEPTH", zzverif.Literal(depth, zzverif.StyleDecimal))
	}
	if hTags {
		zzverif.Setenv(pfx+"TAGS", `a,"b,c"`)
	}
	t := dials.NewType(ptrify.Pointerify(reflect.TypeOf(c11cfg{}), reflect.Value{}))
	src := &Source{Prefix: prefix}
	val, err := src.Value(context.Background(), t)
	inRange := zzverif.And(
		zzverif.And(zzverif.Implies(hPort, zzverif.And(port >= -1<<15, port <= 1<<15-1)), zzverif.Implies(hTTL, ttl <= 255)),
		zzverif.And(zzverif.And(zzverif.Implies(hNamed, zzverif.And(named >= -1<<31, named <= 1<<31-1)), zzverif.Implies(hPTTL, pttl <= 255)),
			zzverif.Implies(hDepth, zzverif.And(depth >= -128, depth <= 127))))
	if err != nil {
		zzverif.Assert(zzverif.Not(inRange), "C11 the environment source failed although every present variable holds a valid in-range value")
		zzverif.Reached("c11-error")
		return
	}
	zzverif.Assert(inRange, "C11 the environment source accepted an out-of-range value instead of reporting an error")
	zzverif.Assert(val.Type() == t.Type(), "C11 the environment source returned a value of the wrong type")
	if val.Type() != t.Type() {
		return
	}
	f := func(name string) reflect.Value { return val.FieldByName(name) }
	chk := func(present bool, v reflect.Value, msg string) bool {
		zzverif.Assert(v.IsNil() == !present, "C11 "+msg+": leaf set although its variable is absent, or unset although present")
		return present && !v.IsNil()
	}
	if chk(hPort, f("Port"), "PORT") {
		zzverif.Assert(f("Port").Elem().Int() == port, "C11 PORT: wrong value")
	}
	if chk(hFile, f("JSONFile"), "JSON_FILE") {
		zzverif.Assert(zzverif.StrEq(f("JSONFile").Elem().String(), file), "C11 JSON_FILE: wrong value")
	}
	peerSet := hAddr || hTTL
	zzverif.Assert(f("Peer").IsNil() == !peerSet, "C11 PEER_*: nested struct set although none of its variables is present, or unset although one is")
	if peerSet && !f("Peer").IsNil() {
		pe := f("Peer").Elem()
		if chk(hAddr, pe.FieldByName("Addr"), "PEER_ADDR") {
			zzverif.Assert(pe.FieldByName("Addr").Elem().String() == "a:1", "C11 PEER_ADDR: wrong value")
		}
		if chk(hTTL, pe.FieldByName("TTL"), "PEER_TIME_TO_LIVE") {
			zzverif.Assert(pe.FieldByName("TTL").Elem().Uint() == ttl, "C11 PEER_TIME_TO_LIVE: wrong value")
		}
	}
	if chk(hNamed, f("Named"), "CUSTOM_NAME") {
		zzverif.Assert(f("Named").Elem().Int() == named, "C11 CUSTOM_NAME: wrong value")
	}
	ptrSet := hPAddr || hPTTL
	zzverif.Assert(f("Ptr").IsNil() == !ptrSet, "C11 PTR_*: pointer struct set although none of its variables is present, or unset although one is")
	if ptrSet && !f("Ptr").IsNil() {
		pe := f("Ptr").Elem()
		if chk(hPAddr, pe.FieldByName("Addr"), "PTR_ADDR") {
			zzverif.Assert(pe.FieldByName("Addr").Elem().String() == "b", "C11 PTR_ADDR: wrong value")
		}
		if chk(hPTTL, pe.FieldByName("TTL"), "PTR_TIME_TO_LIVE") {
			zzverif.Assert(pe.FieldByName("TTL").Elem().Uint() == pttl, "C11 PTR_TIME_TO_LIVE: wrong value")
		}
	}
	zzverif.Assert(f("C11Emb").IsNil() == !hDepth, "C11 DEPTH (promoted from an embedded struct): embedded struct set/unset wrongly")
	if hDepth && !f("C11Emb").IsNil() {
		zzverif.Assert(f("C11Emb").Elem().FieldByName("Depth").Elem().Int() == depth, "C11 DEPTH (promoted from an embedded struct): wrong value")
	}
	zzverif.Assert(f("Tags").IsNil() == !hTags, "C11 TAGS: slice set/unset wrongly")
	if hTags && !f("Tags").IsNil() {
		tg := f("Tags")
		zzverif.Assert(tg.Len() == 2 && tg.Index(0).String() == "a" && tg.Index(1).String() == "b,c", "C11 TAGS: wrong value")
	}
	zzverif.Assert(f("Wait").IsNil(), "C11 WAIT: set although absent")
	dbSet := hDBHost || hDBKey
	zzverif.Assert(f("DB").IsNil() == !dbSet, "C11 DB_*: nested struct set although none of its variables is present, or unset although one is")
	if dbSet && !f("DB").IsNil() {
		db := f("DB").Elem()
		if chk(hDBHost, db.FieldByName("Host"), "DB_HOST") {
			zzverif.Assert(db.FieldByName("Host").Elem().String() == "dbh", "C11 DB_HOST: wrong value")
		}
		zzverif.Assert(db.FieldByName("TLS").IsNil() == !hDBKey, "C11 DB_TLS_KEY: inner struct set/unset wrongly")
	}
	// a second call on the same Source after a variable was removed must not remember it
	if hPort {
		zzverif.Unsetenv(pfx + "PORT")
		val2, err2 := src.Value(context.Background(), t)
		zzverif.Assert(err2 == nil, "C11 a second Value call on the same Source failed")
		if err2 == nil {
			zzverif.Assert(val2.FieldByName("Port").IsNil(), "C11 a removed variable is still reported as set by a later Value call on the same Source")
			zzverif.Assert(val2.FieldByName("Named").IsNil() == !hNamed, "C11 a second Value call changed an unrelated leaf")
		}
	}
	zzverif.Reached("c11-end")
}

// HarnessC11NoPrefix / HarnessC11Prefix: every subset of the 9 variables, every value.
func HarnessC11NoPrefix() { c11run("") }
func HarnessC11Prefix()   { c11run("APP") }
