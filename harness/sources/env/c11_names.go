package env

// C11: name derivation for field names with initialisms and pluralised initialisms; map- and
// slice-valued variables (bare keys, symbolic payload).

import (
	"context"
	"reflect"

	"github.com/vimeo/dials"
	"github.com/vimeo/dials/ptrify"
	"github.com/vimeo/dials/zzverif"
)

type c11backend struct {
	AllowedIPs []string
}

// a named non-struct type embedded at the top level
type Tier string

type c11ncfg struct {
	Tier
	CaféURL string // a non-ASCII lower-case letter directly before an initialism
	MenüIDKey string // ... and in the middle of a name
	UserIDs  []string
	HTTPPort int16
	MaxQPS   int8
	Labels   map[string]string
	Backend  c11backend
	UserID   string
	Cities   []string
	Gain     complex128
	Ratio    float32
	Token    string
	Regions  []c11Region
	// tags written in capitals on two levels
	Store c11store `dials:"DB"`
}

type c11Region string

type c11store struct {
	Host string `dials:"HOST"`
}

func HarnessC11Names() {
	all := []string{"USER_IDS", "HTTP_PORT", "MAX_QPS", "LABELS", "BACKEND_ALLOWED_IPS", "USER_ID", "CITIES", "GAIN", "TIER", "CAFÉ_URL", "RATIO", "TOKEN", "MENÜ_ID_KEY", "DB_HOST", "DBHOST", "REGIONS"}
	decoys := []string{"L", "MENÜID_KEY", "MENÜ_IDKEY", "CAF_URL", "CAFÉURL", "CAFÉ_U_R_L", "USER_I_DS", "USER_ID_S", "USERIDS", "HTTPPORT", "H_T_T_P_PORT", "MAX_Q_P_S", "MAXQPS", "BACKEND_ALLOWED_I_PS", "ALLOWED_IPS"}
	clear := func() {
		for _, n := range all {
			zzverif.Unsetenv(n)
		}
		for _, n := range decoys {
			zzverif.Unsetenv(n)
		}
	}
	clear()
	defer clear()
	for _, n := range decoys {
		zzverif.Setenv(n, "77")
	}
	hIDs, hPort, hQPS, hLabels, hIPs, hID := zzverif.Bool("has_ids"), zzverif.Bool("has_port"), zzverif.Bool("has_qps"), zzverif.Choose("labels", 4), zzverif.Bool("has_ips"), zzverif.Bool("has_id")
	x := zzverif.Bytes("x", 1)
	zzverif.Assume(zzverif.InRange(x[0], 'a', 'z'))
	port := zzverif.Int64("port")
	if hIDs {
		zzverif.Setenv("USER_IDS", "u1,u2")
	}
	if hPort {
		zzverif.Setenv("HTTP_PORT", zzverif.Literal(port, zzverif.StyleDecimal))
	}
	if hQPS {
		zzverif.Setenv("MAX_QPS", "5")
	}
	switch hLabels {
	case 1:
		zzverif.Setenv("LABELS", "a:"+x+",b") // a trailing bare key has the empty value
	case 2:
		zzverif.Setenv("LABELS", "a:"+x+",b,c:z")
	case 3:
		zzverif.Setenv("LABELS", "b,a:"+x)
	}
	if hIPs {
		zzverif.Setenv("BACKEND_ALLOWED_IPS", "10.0.0.1")
	}
	if hID {
		zzverif.Setenv("USER_ID", "me")
	}
	// always present: an unquoted list element with an inner space, and a complex128 whose parts
	// are not representable in float32
	hTier, hCafe := zzverif.Bool("has_tier"), zzverif.Bool("has_cafe")
	if hTier {
		zzverif.Setenv("TIER", "gold")
	}
	if hCafe {
		zzverif.Setenv("CAFÉ_URL", "http://c/")
		zzverif.Setenv("MENÜ_ID_KEY", "mk")
	}
	zzverif.Setenv("CITIES", "New York,Boston ")
	zzverif.Setenv("GAIN", "0.1+0.2i")
	zzverif.Setenv("RATIO", "3.4028235e+38") // the largest float32, as strconv prints it
	zzverif.Setenv("TOKEN", "c2VjcmV0==")    // a value containing '='
	zzverif.Setenv("REGIONS", "eu,us")
	hStore := zzverif.Bool("has_store")
	if hStore {
		zzverif.Setenv("DB_HOST", "dbh")
	}

	t := dials.NewType(ptrify.Pointerify(reflect.TypeOf(c11ncfg{}), reflect.Value{}))
	val, err := (&Source{}).Value(context.Background(), t)
	inRange := zzverif.Implies(hPort, zzverif.And(port >= -1<<15, port <= 1<<15-1))
	if err != nil {
		zzverif.Assert(zzverif.Not(inRange), "C11 the environment source failed although every present variable holds a valid in-range value")
		return
	}
	zzverif.Assert(inRange, "C11 the environment source accepted an out-of-range value instead of reporting an error")
	f := func(name string) reflect.Value { return val.FieldByName(name) }
	zzverif.Assert(f("UserIDs").IsNil() == !hIDs, "C11 USER_IDS (pluralised initialism): leaf set although its variable is absent, or unset although present")
	if hIDs && !f("UserIDs").IsNil() {
		zzverif.Assert(f("UserIDs").Len() == 2 && f("UserIDs").Index(1).String() == "u2", "C11 USER_IDS: wrong value")
	}
	zzverif.Assert(f("HTTPPort").IsNil() == !hPort, "C11 HTTP_PORT (leading initialism): leaf set/unset wrongly")
	if hPort && !f("HTTPPort").IsNil() {
		zzverif.Assert(f("HTTPPort").Elem().Int() == port, "C11 HTTP_PORT: wrong value")
	}
	zzverif.Assert(f("MaxQPS").IsNil() == !hQPS, "C11 MAX_QPS (trailing initialism): leaf set/unset wrongly")
	if hQPS && !f("MaxQPS").IsNil() {
		zzverif.Assert(f("MaxQPS").Elem().Int() == 5, "C11 MAX_QPS: wrong value")
	}
	zzverif.Assert(f("UserID").IsNil() == !hID, "C11 USER_ID: leaf set/unset wrongly")
	zzverif.Assert(f("Backend").IsNil() == !hIPs, "C11 BACKEND_ALLOWED_IPS (nested, pluralised initialism): set/unset wrongly")
	if hIPs && !f("Backend").IsNil() {
		ips := f("Backend").Elem().FieldByName("AllowedIPs")
		zzverif.Assert(!ips.IsNil() && ips.Len() == 1 && ips.Index(0).String() == "10.0.0.1", "C11 BACKEND_ALLOWED_IPS: wrong value")
	}
	zzverif.Assert(f("Tier").IsNil() == !hTier, "C11 TIER (named scalar embedded at the top level): leaf set/unset wrongly")
	if hTier && !f("Tier").IsNil() {
		zzverif.Assert(f("Tier").Elem().String() == "gold", "C11 TIER: wrong value")
	}
	zzverif.Assert(f("CaféURL").IsNil() == !hCafe, "C11 CAFÉ_URL (non-ASCII letter before an initialism): leaf set although its variable is absent (a decoy was read), or unset although present")
	if hCafe && !f("CaféURL").IsNil() {
		zzverif.Assert(f("CaféURL").Elem().String() == "http://c/", "C11 CAFÉ_URL: wrong value")
	}
	zzverif.Assert(f("MenüIDKey").IsNil() == !hCafe, "C11 MENÜ_ID_KEY (non-ASCII letter before an initialism in the middle of a name): leaf set although its variable is absent (a decoy was read), or unset although present")
	ct := f("Cities")
	zzverif.Assert(!ct.IsNil() && ct.Len() == 2 && ct.Index(0).String() == "New York", "C11 CITIES: an unquoted list element containing a space did not arrive as written")
	g := f("Gain")
	zzverif.Assert(!g.IsNil() && g.Elem().Complex() == complex(0.1, 0.2), "C11 GAIN: a complex128 leaf does not hold the parsed value (parts rounded to float32?)")
	zzverif.Assert(!f("Ratio").IsNil() && float32(f("Ratio").Elem().Float()) == 3.4028235e+38, "C11 RATIO: the largest float32 value was rejected or changed")
	zzverif.Assert(!f("Token").IsNil() && f("Token").Elem().String() == "c2VjcmV0==", "C11 TOKEN: a value containing '=' did not arrive as written")
	// the documented name is the UPPER_SNAKE_CASE join of the tags along the path: DB_HOST
	storeOK := f("Store").IsNil() == !hStore
	if hStore && !f("Store").IsNil() {
		h := f("Store").Elem().FieldByName("Host")
		storeOK = !h.IsNil() && h.Elem().String() == "dbh"
	}
	zzverif.AssertUnlessKnown(storeOK, "C11 DB_HOST (capitalised tags on two levels): leaf unset although its variable is present, or set although absent", "c11-allcaps-tags", true)
	rg := f("Regions")
	zzverif.Assert(!rg.IsNil() && rg.Len() == 2 && rg.Index(1).String() == "us", "C11 REGIONS (slice of a named string type): wrong value")
	lb := f("Labels")
	zzverif.Assert(lb.IsNil() == (hLabels == 0), "C11 LABELS: map set/unset wrongly")
	if hLabels != 0 && !lb.IsNil() {
		get := func(k string) (string, bool) {
			v := lb.MapIndex(reflect.ValueOf(k))
			if !v.IsValid() {
				return "", false
			}
			return v.String(), true
		}
		av, aok := get("a")
		bv, bok := get("b")
		zzverif.Assert(aok && zzverif.StrEq(av, x), "C11 LABELS: the value of key a is not the text after its colon")
		zzverif.Assert(bok && bv == "", "C11 LABELS: a bare key did not get the empty value (it inherited a neighbour's)")
		wantLen := 2
		if hLabels == 2 {
			cv, cok := get("c")
			zzverif.Assert(cok && cv == "z", "C11 LABELS: the value of key c is wrong")
			wantLen = 3
		}
		zzverif.Assert(lb.Len() == wantLen, "C11 LABELS: wrong number of entries")
	}
	zzverif.Reached("c11-names-end")
}

// HarnessC11PrefixTwice: one prefixed Source asked for its value twice reads the same variables
// both times.
func HarnessC11PrefixTwice() {
	for _, n := range []string{"APP_PORT", "APP__PORT", "PORT"} {
		zzverif.Unsetenv(n)
	}
	defer zzverif.Unsetenv("APP_PORT")
	defer zzverif.Unsetenv("APP__PORT")
	port := zzverif.Int64("port")
	zzverif.Assume(zzverif.And(port >= -1<<15, port <= 1<<15-1))
	zzverif.Setenv("APP_PORT", zzverif.Literal(port, zzverif.StyleDecimal))
	zzverif.Setenv("APP__PORT", "99")
	type cfg struct{ Port int16 }
	t := dials.NewType(ptrify.Pointerify(reflect.TypeOf(cfg{}), reflect.Value{}))
	src := &Source{Prefix: "APP"}
	for i := 0; i < 2; i++ {
		val, err := src.Value(context.Background(), t)
		zzverif.Assert(err == nil, "C11 a prefixed environment source failed on a valid value")
		if err == nil {
			p := val.FieldByName("Port")
			zzverif.Assert(!p.IsNil() && p.Elem().Int() == port, "C11 a prefixed Source asked for its value a second time read another variable (or none)")
		}
	}
	zzverif.Reached("c11-prefix-twice-end")
}
