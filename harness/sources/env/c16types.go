package env

// C16 (type half): config struct types built from supported kinds with every leaf replaced by a
// user-defined named version do not make the environment source panic.

import (
	"time"
	"context"
	"reflect"

	"github.com/vimeo/dials"
	"github.com/vimeo/dials/ptrify"
	"github.com/vimeo/dials/zzverif"
)

type c16Level uint8
type c16Count int32
type c16Name string
type c16Flag bool
type c16List []string
type c16Set map[string]struct{}
type c16Elem int16

type c16scalars struct {
	L c16Level
	C c16Count
	N c16Name
	F c16Flag
}

type c16colls struct {
	Li c16List
	S  c16Set
	E  []c16Elem
	M  map[string]c16Elem
}

// slices and maps whose elements/keys/values are named strings, named bools, named floats
type c16Ratio float32

type c16colls2 struct {
	H  []c16Name
	MN map[c16Name]c16Name
	B  []c16Flag
	R  []c16Ratio
	KS map[c16Name]struct{}
}

type c16ptrs struct {
	PI *int
	PS *c16Name
	// user-declared pointers to collections
	PL *[]string
	PM *map[string]string
	PD *[]time.Duration
}

// tags made only of separator characters (they name no word)
type c16odd struct {
	U int    `dials:"_"`
	V string `dials:"-_-"`
	W int8
}

func c16env[T any](tname string, vars map[string]string) {
	for k := range vars {
		zzverif.Unsetenv(k)
	}
	names := make([]string, 0, len(vars))
	for k := range vars {
		names = append(names, k)
	}
	// deterministic order
	for i := 1; i < len(names); i++ {
		for j := i; j > 0 && names[j] < names[j-1]; j-- {
			names[j], names[j-1] = names[j-1], names[j]
		}
	}
	for _, k := range names {
		if zzverif.Bool("has_" + k) {
			zzverif.Setenv(k, vars[k])
		}
	}
	defer func() {
		for _, k := range names {
			zzverif.Unsetenv(k)
		}
	}()
	var zero T
	t := dials.NewType(ptrify.Pointerify(reflect.TypeOf(zero), reflect.Value{}))
	val, err := (&Source{}).Value(context.Background(), t)
	if err == nil {
		zzverif.Assert(val.IsValid() && val.Type() == t.Type(), "C16 "+tname+": the environment source returned a value of the wrong type")
	}
	zzverif.Reached("c16-types-end")
}

func HarnessC16EnvNamedScalars() {
	c16env[c16scalars]("named scalars", map[string]string{"L": "3", "C": "-7", "N": "x", "F": "true"})
}

func HarnessC16EnvNamedCollections() {
	c16env[c16colls]("named collections", map[string]string{"LI": "a,b", "S": "a,b", "E": "1,2", "M": "a:1"})
}

func HarnessC16EnvNamedElems() {
	c16env[c16colls2]("collections of named strings/bools/floats", map[string]string{"H": "a,b", "MN": "a:b", "B": "true,false", "R": "1.5,2", "KS": "a,b"})
}

func HarnessC16EnvPointers() {
	c16env[c16ptrs]("user pointers", map[string]string{"PI": "5", "PS": "n", "PL": "a,b", "PM": "a:b", "PD": "1s,2s"})
}

func HarnessC16EnvOddTags() {
	c16env[c16odd]("separator-only tags", map[string]string{"W": "3", "_": "1"})
}
