package env

// C11 on a generated family of config struct types: every struct of up to N fields over the
// shared alphabet of field shapes, every subset of the derived variables present.

import (
	"context"
	"reflect"
	"strconv"
	"strings"

	"github.com/vimeo/dials"
	"github.com/vimeo/dials/ptrify"
	"github.com/vimeo/dials/zzverif"
)

func c11gen(nfields int) {
	shapes := make([]int, nfields)
	for i := range shapes {
		shapes[i] = zzverif.Choose("shape"+strconv.Itoa(i), zzverif.GenNumShapes())
	}
	gt, ok := zzverif.GenStruct(shapes)
	if !ok {
		zzverif.Reached("c11-gen-end")
		return
	}
	names := make([]string, len(gt.Leaves))
	has := make([]bool, len(gt.Leaves))
	nv := zzverif.Int64("n")
	for i, l := range gt.Leaves {
		names[i] = l.Name("_", strings.ToUpper)
		zzverif.Unsetenv(names[i])
	}
	defer func() {
		for _, n := range names {
			zzverif.Unsetenv(n)
		}
	}()
	firstInt := -1
	for i, l := range gt.Leaves {
		has[i] = zzverif.Bool("has" + strconv.Itoa(i))
		if !has[i] {
			continue
		}
		if l.Kind == zzverif.GLInt8 && firstInt < 0 {
			firstInt = i
			zzverif.Setenv(names[i], zzverif.Literal(nv, zzverif.StyleDecimal))
			continue
		}
		zzverif.Setenv(names[i], zzverif.GenText(l.Kind, "5"))
	}
	t := dials.NewType(ptrify.Pointerify(gt.T, reflect.Value{}))
	val, err := (&Source{}).Value(context.Background(), t)
	inRange := zzverif.Implies(firstInt >= 0, zzverif.And(nv >= -128, nv <= 127))
	if err != nil {
		zzverif.Assert(zzverif.Not(inRange), "C11 generated type ["+gt.Desc+"]: the environment source failed although every present variable holds a valid in-range value")
		zzverif.Reached("c11-gen-error")
		return
	}
	zzverif.Assert(inRange, "C11 generated type ["+gt.Desc+"]: out-of-range value accepted")
	zzverif.Assert(val.Type() == t.Type(), "C11 generated type ["+gt.Desc+"]: wrong result type")
	if val.Type() != t.Type() {
		return
	}
	for i, l := range gt.Leaves {
		// every struct on the way is set iff some leaf below it is
		for n := 1; n < len(l.Path); n++ {
			anyBelow := false
			for j, m := range gt.Leaves {
				if len(m.Path) > n && strings.Join(m.Path[:n], ".") == strings.Join(l.Path[:n], ".") && has[j] {
					anyBelow = true
				}
			}
			p := zzverif.GenParent(val, l, n)
			if p.IsValid() {
				zzverif.Assert(zzverif.GenIsNilLeaf(p) == !anyBelow, "C11 generated type ["+gt.Desc+"]: struct "+strings.Join(l.Path[:n], ".")+" set although none of its variables is present, or unset although one is")
			}
		}
		leaf, reached := zzverif.GenGet(val, l)
		if !leaf.IsValid() {
			zzverif.Assert(!has[i] && reached >= 1, "C11 generated type ["+gt.Desc+"]: leaf "+names[i]+" is unreachable although its variable is present")
			continue
		}
		zzverif.Assert(zzverif.GenIsNilLeaf(leaf) == !has[i], "C11 generated type ["+gt.Desc+"]: leaf "+names[i]+" set although its variable is absent, or unset although present")
		if has[i] && !zzverif.GenIsNilLeaf(leaf) {
			if i == firstInt {
				lv := leaf
				for lv.Kind() == reflect.Ptr {
					lv = lv.Elem()
				}
				zzverif.Assert(lv.Int() == nv, "C11 generated type ["+gt.Desc+"]: leaf "+names[i]+" has the wrong value")
			} else {
				zzverif.Assert(zzverif.GenLeafIs(leaf, l.Kind, 5), "C11 generated type ["+gt.Desc+"]: leaf "+names[i]+" has the wrong value")
			}
		}
	}
	zzverif.Reached("c11-gen-end")
}

func HarnessC11Gen2() { c11gen(2) }
func HarnessC11Gen3() { c11gen(3) }
