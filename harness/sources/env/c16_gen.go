package env

// C16 (type half) on the generated family over the *named-type* alphabet: every leaf is a
// user-defined named version of a supported kind, or a collection of such; every subset of the
// derived variables present. No panic, a value of the requested type, and the parsed values.

import (
	"context"
	"reflect"
	"strconv"
	"strings"

	"github.com/vimeo/dials"
	"github.com/vimeo/dials/ptrify"
	"github.com/vimeo/dials/zzverif"
)

func c16envgen(nfields int) { c16envgenA(nfields, false) }

func c16envgenA(nfields int, ptrAlphabet bool) {
	shapes := make([]int, nfields)
	for i := range shapes {
		if ptrAlphabet {
			shapes[i] = zzverif.Choose("shape"+strconv.Itoa(i), zzverif.GenNumPtrShapes())
		} else {
			shapes[i] = zzverif.Choose("shape"+strconv.Itoa(i), zzverif.GenNumNamedShapes())
		}
	}
	var gt zzverif.GenType
	var ok bool
	if ptrAlphabet {
		gt, ok = zzverif.GenStructPtr(shapes)
	} else {
		gt, ok = zzverif.GenStructNamed(shapes)
	}
	if !ok {
		zzverif.Reached("c16-envgen-end")
		return
	}
	names := make([]string, len(gt.Leaves))
	has := make([]bool, len(gt.Leaves))
	nv := zzverif.Int64("n")
	for i, l := range gt.Leaves {
		names[i] = l.Name("_", strings.ToUpper)
		zzverif.Unsetenv(names[i])
	}
	defer func() {
		for _, n := range names {
			zzverif.Unsetenv(n)
		}
	}()
	firstInt := -1
	for i, l := range gt.Leaves {
		has[i] = zzverif.Bool("has" + strconv.Itoa(i))
		if !has[i] {
			continue
		}
		if l.Kind == zzverif.GLInt8 && firstInt < 0 {
			firstInt = i
			zzverif.Setenv(names[i], zzverif.Literal(nv, zzverif.StyleDecimal))
			continue
		}
		zzverif.Setenv(names[i], zzverif.GenText(l.Kind, "5"))
	}
	t := dials.NewType(ptrify.Pointerify(gt.T, reflect.Value{}))
	val, err := (&Source{}).Value(context.Background(), t)
	inRange := zzverif.Implies(firstInt >= 0, zzverif.And(nv >= -128, nv <= 127))
	if err != nil {
		// C16 allows an error (a named set type, for one, is reported as unsupported); what it
		// rules out is a panic or a value of the wrong type
		zzverif.Reached("c16-envgen-error")
		return
	}
	zzverif.Assert(inRange, "C16 generated named type ["+gt.Desc+"]: out-of-range value accepted")
	zzverif.Assert(val.Type() == t.Type(), "C16 generated named type ["+gt.Desc+"]: wrong result type")
	if val.Type() != t.Type() {
		return
	}
	for i, l := range gt.Leaves {
		// every struct on the way is set iff some leaf below it is
		for n := 1; n < len(l.Path); n++ {
			anyBelow := false
			for j, m := range gt.Leaves {
				if len(m.Path) > n && strings.Join(m.Path[:n], ".") == strings.Join(l.Path[:n], ".") && has[j] {
					anyBelow = true
				}
			}
			p := zzverif.GenParent(val, l, n)
			if p.IsValid() {
				zzverif.Assert(zzverif.GenIsNilLeaf(p) == !anyBelow, "C16 generated named type ["+gt.Desc+"]: struct "+strings.Join(l.Path[:n], ".")+" set although none of its variables is present, or unset although one is")
			}
		}
		leaf, reached := zzverif.GenGet(val, l)
		if !leaf.IsValid() {
			zzverif.Assert(!has[i] && reached >= 1, "C16 generated named type ["+gt.Desc+"]: leaf "+names[i]+" is unreachable although its variable is present")
			continue
		}
		zzverif.Assert(zzverif.GenIsNilLeaf(leaf) == !has[i], "C16 generated named type ["+gt.Desc+"]: leaf "+names[i]+" set although its variable is absent, or unset although present")
		if has[i] && !zzverif.GenIsNilLeaf(leaf) {
			if i == firstInt {
				lv := leaf
				for lv.Kind() == reflect.Ptr {
					lv = lv.Elem()
				}
				zzverif.Assert(lv.Int() == nv, "C16 generated named type ["+gt.Desc+"]: leaf "+names[i]+" has the wrong value")
			} else {
				zzverif.Assert(zzverif.GenLeafIs(leaf, l.Kind, 5), "C16 generated named type ["+gt.Desc+"]: leaf "+names[i]+" has the wrong value")
			}
		}
	}
	zzverif.Reached("c16-envgen-end")
}

func HarnessC16EnvGen2() { c16envgen(2) }
func HarnessC16EnvPtrGen2() { c16envgenA(2, true) }
func HarnessC16EnvGen3() { c16envgen(3) }
