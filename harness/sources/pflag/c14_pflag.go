package pflag

// C14 (pflag) (standard-library flag source): either flag name sets the field, both together are an
// error naming the field; aliased fields of scalar, slice, set and nested kinds.

import (
	"context"
	"reflect"
	"strings"

	"github.com/vimeo/dials"
	"github.com/vimeo/dials/zzverif"
)

type c14pdb struct {
	Host string `dials:"host" dialsalias:"hostname"`
	Port int16  `dials:"port"`
}

type c14pcfg struct {
	Name  string              `dials:"name" dialsalias:"oldname"`
	Tags  []string            `dials:"tags" dialsalias:"labels"`
	Seen  map[string]struct{} `dials:"seen" dialsalias:"visited"`
	Level int8                `dials:"level" dialspflag:"lvl" dialspflagalias:"old-lvl"`
	DB    c14pdb              `dials:"db"`
	Plain int8                `dials:"plain"`
}

func HarnessC14Pflag() {
	var args []string
	pat := func(name, primary, alias, val string) int {
		p := zzverif.Choose("pat_"+name, 4)
		if p&1 != 0 {
			args = append(args, "--"+primary, val)
		}
		if p&2 != 0 {
			args = append(args, "--"+alias, val)
		}
		return p
	}
	pName := pat("name", "name", "oldname", "n")
	pTags := pat("tags", "tags", "labels", "a,b")
	pSeen := pat("seen", "seen", "visited", "x")
	pLvl := pat("lvl", "lvl", "old-lvl", "3")
	pHost := pat("host", "db-host", "db-hostname", "h")
	plain := zzverif.Choose("plain", 2) == 1
	if plain {
		args = append(args, "--plain", "5")
	}
	tmpl := c14pcfg{Name: "dn", Tags: []string{"t0"}}
	fs, err := NewSetWithArgs(DefaultFlagNameConfig(), &tmpl, args)
	zzverif.Assert(err == nil, "C14 (pflag) registering flags for a config with aliased fields failed")
	if err != nil {
		return
	}
	for _, n := range []string{"name", "oldname", "tags", "labels", "seen", "visited", "lvl", "old-lvl", "db-host", "db-hostname", "plain"} {
		if fs.Flags.Lookup(n) == nil {
			zzverif.Fail("C14 (pflag) no flag named " + n + " was registered")
			return
		}
	}
	val, verr := fs.Value(context.Background(), dials.NewType(fs.ptrType))
	anyBoth := pName == 3 || pTags == 3 || pSeen == 3 || pLvl == 3 || pHost == 3
	if verr != nil {
		zzverif.Assert(anyBoth, "C14 (pflag) the flag source failed although no field was given under both its names")
		msg := verr.Error()
		named := (pName == 3 && strings.Contains(msg, "Name")) || (pTags == 3 && strings.Contains(msg, "Tags")) || (pSeen == 3 && strings.Contains(msg, "Seen")) ||
			(pLvl == 3 && strings.Contains(msg, "Level")) || (pHost == 3 && strings.Contains(msg, "Host"))
		if !zzverif.Symbolic() {
			zzverif.Assert(named, "C14 (pflag) the both-names error does not name the field: "+msg)
		}
		zzverif.Reached("c14-pflag-both-error")
		return
	}
	zzverif.Assert(!anyBoth, "C14 (pflag) a field given under both its primary and alias flag did not produce an error")
	f := func(n string) reflect.Value { return val.FieldByName(n) }
	zzverif.Assert(f("Name").IsNil() == (pName == 0), "C14 (pflag) -name/-oldname: field set although neither flag was given, or unset although one was")
	if pName != 0 && !f("Name").IsNil() {
		zzverif.Assert(f("Name").Elem().String() == "n", "C14 (pflag) -name/-oldname: wrong value")
	}
	zzverif.Assert(f("Tags").IsNil() == (pTags == 0), "C14 (pflag) -tags/-labels: slice field set/unset wrongly")
	if pTags != 0 && !f("Tags").IsNil() {
		zzverif.Assert(f("Tags").Len() == 2 && f("Tags").Index(1).String() == "b", "C14 (pflag) -tags/-labels: wrong value")
	}
	zzverif.Assert(f("Seen").IsNil() == (pSeen == 0), "C14 (pflag) -seen/-visited: set field set/unset wrongly")
	if pSeen != 0 && !f("Seen").IsNil() {
		zzverif.Assert(f("Seen").Len() == 1 && f("Seen").MapIndex(reflect.ValueOf("x")).IsValid(), "C14 (pflag) -seen/-visited: wrong value")
	}
	zzverif.Assert(f("Level").IsNil() == (pLvl == 0), "C14 (pflag) -lvl/-old-lvl: field set/unset wrongly")
	if pLvl != 0 && !f("Level").IsNil() {
		zzverif.Assert(f("Level").Elem().Int() == 3, "C14 (pflag) -lvl/-old-lvl: wrong value")
	}
	zzverif.Assert(f("DB").IsNil() == (pHost == 0), "C14 (pflag) -db-host/-db-hostname: nested struct set/unset wrongly")
	if pHost != 0 && !f("DB").IsNil() {
		h := f("DB").Elem().FieldByName("Host")
		zzverif.Assert(!h.IsNil() && h.Elem().String() == "h", "C14 (pflag) -db-host/-db-hostname: wrong value")
	}
	zzverif.Assert(f("Plain").IsNil() == !plain, "C14 (pflag) an unaliased field was affected by aliases")
	zzverif.Reached("c14-pflag-end")
}
