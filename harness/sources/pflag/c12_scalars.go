package pflag

// C12 (pflag source): every integer width, symbolic values, range errors, only given flags set.

import (
	"context"
	"reflect"

	"github.com/vimeo/dials"
	"github.com/vimeo/dials/zzverif"
)

type c12pLevel int32

type c12pcfg struct {
	I8   int8
	I16  int16
	I32  int32
	I64  int64
	U8   uint8
	U16  uint16
	U32  uint32
	N32  c12pLevel
	Name string
	On   bool
}

func HarnessC12PflagScalars() {
	tmpl := c12pcfg{I8: zzverif.Int8("dI8"), I32: zzverif.Int32("dI32"), Name: "dn"}
	var args []string
	type leaf struct {
		flag, field string
		signed      bool
		lo, hi      int64
		uhi         uint64
		has         bool
		sv          int64
		uv          uint64
	}
	leaves := []*leaf{
		{flag: "i8", field: "I8", signed: true, lo: -1 << 7, hi: 1<<7 - 1},
		{flag: "i16", field: "I16", signed: true, lo: -1 << 15, hi: 1<<15 - 1},
		{flag: "i32", field: "I32", signed: true, lo: -1 << 31, hi: 1<<31 - 1},
		{flag: "i64", field: "I64", signed: true, lo: -1 << 63, hi: 1<<63 - 1},
		{flag: "u8", field: "U8", uhi: 1<<8 - 1},
		{flag: "u16", field: "U16", uhi: 1<<16 - 1},
		{flag: "u32", field: "U32", uhi: 1<<32 - 1},
		{flag: "n32", field: "N32", signed: true, lo: -1 << 31, hi: 1<<31 - 1},
	}
	inRange := true
	for _, l := range leaves {
		l.has = zzverif.Bool("has_" + l.flag)
		if l.signed {
			l.sv = zzverif.Int64(l.flag)
		} else {
			l.uv = zzverif.Uint64(l.flag)
		}
		if !l.has {
			continue
		}
		if l.signed {
			args = append(args, "--"+l.flag, zzverif.Literal(l.sv, zzverif.StyleDecimal))
			inRange = zzverif.And(inRange, zzverif.And(l.sv >= l.lo, l.sv <= l.hi))
		} else {
			args = append(args, "--"+l.flag, zzverif.LiteralU(l.uv, zzverif.StyleDecimal))
			inRange = zzverif.And(inRange, l.uv <= l.uhi)
		}
	}
	hName, hOn := zzverif.Bool("has_name"), zzverif.Bool("has_on")
	if hName {
		args = append(args, "--name", "nm")
	}
	if hOn {
		args = append(args, "--on")
	}
	fs, err := NewSetWithArgs(DefaultFlagNameConfig(), &tmpl, args)
	zzverif.Assert(err == nil, "C12 (pflag) registering flags failed")
	if err != nil {
		return
	}
	val, verr := fs.Value(context.Background(), dials.NewType(fs.ptrType))
	if verr != nil {
		zzverif.Assert(zzverif.Not(inRange), "C12 (pflag) the flag source failed although every flag given holds a valid in-range value")
		zzverif.Reached("c12-pflag-error")
		return
	}
	zzverif.Assert(inRange, "C12 (pflag) the flag source accepted a value outside the leaf type's range")
	for _, l := range leaves {
		f := val.FieldByName(l.field)
		zzverif.Assert(f.IsNil() == !l.has, "C12 (pflag) --"+l.flag+": leaf set although its flag was not on the command line, or unset although it was")
		if l.has && !f.IsNil() {
			if l.signed {
				zzverif.Assert(f.Elem().Int() == l.sv, "C12 (pflag) --"+l.flag+": wrong value")
			} else {
				zzverif.Assert(f.Elem().Uint() == l.uv, "C12 (pflag) --"+l.flag+": wrong value")
			}
		}
	}
	zzverif.Assert(val.FieldByName("Name").IsNil() == !hName, "C12 (pflag) --name: set/unset wrongly")
	zzverif.Assert(val.FieldByName("On").IsNil() == !hOn, "C12 (pflag) --on: set/unset wrongly")
	if hOn && !val.FieldByName("On").IsNil() {
		zzverif.Assert(val.FieldByName("On").Elem().Bool(), "C12 (pflag) --on: wrong value")
	}
	_ = reflect.Value{}
	zzverif.Reached("c12-pflag-end")
}
