package pflag

// C16 (type half, flag source) on the generated family over the named-type alphabet: registering
// flags and reading them back never panics; named scalar leaves given on the command line arrive.

import (
	"context"
	"reflect"
	"strconv"
	"strings"

	"github.com/vimeo/dials"
	"github.com/vimeo/dials/zzverif"
)

func c16pflaggen(nfields int) { c16pflaggenA(nfields, false) }

func c16pflaggenA(nfields int, ptrAlphabet bool) {
	shapes := make([]int, nfields)
	for i := range shapes {
		if ptrAlphabet {
			shapes[i] = zzverif.Choose("shape"+strconv.Itoa(i), zzverif.GenNumPtrShapes())
		} else {
			shapes[i] = zzverif.Choose("shape"+strconv.Itoa(i), zzverif.GenNumNamedShapes())
		}
	}
	var gt zzverif.GenType
	var ok bool
	if ptrAlphabet {
		gt, ok = zzverif.GenStructPtr(shapes)
	} else {
		gt, ok = zzverif.GenStructNamed(shapes)
	}
	if !ok {
		zzverif.Reached("c16-pflaggen-end")
		return
	}
	scalar := func(k int) bool {
		if ptrAlphabet {
			return true // every leaf of the pointer alphabet is given on the command line
		}
		switch k {
		case zzverif.GLNamedString, zzverif.GLNamedBool, zzverif.GLNamedInt64, zzverif.GLNamedFloat32, zzverif.GLNamedUint8, zzverif.GLPtrNamedString:
			return true
		}
		return false
	}
	names := make([]string, len(gt.Leaves))
	has := make([]bool, len(gt.Leaves))
	var args []string
	for i, l := range gt.Leaves {
		names[i] = l.Name("-", strings.ToLower)
		if scalar(l.Kind) && zzverif.Bool("has"+strconv.Itoa(i)) {
			has[i] = true
			args = append(args, "--"+names[i]+"="+zzverif.GenText(l.Kind, "5"))
		}
	}
	tmpl := reflect.New(gt.T).Interface()
	fs, err := NewSetWithArgs(DefaultFlagNameConfig(), tmpl, args)
	if err != nil {
		zzverif.Reached("c16-pflaggen-error")
		return
	}
	val, verr := fs.Value(context.Background(), dials.NewType(fs.ptrType))
	if verr != nil {
		zzverif.Reached("c16-pflaggen-error")
		return
	}
	zzverif.Assert(val.IsValid() && val.Type() == fs.ptrType, "C16 (pflag) generated named type ["+gt.Desc+"]: the flag source returned a value of the wrong type")
	for i, l := range gt.Leaves {
		if !scalar(l.Kind) {
			continue
		}
		leaf, _ := zzverif.GenGet(val, l)
		if !leaf.IsValid() {
			zzverif.Assert(!has[i], "C12 (pflag) generated named type ["+gt.Desc+"]: leaf -"+names[i]+" is unreachable although its flag was given")
			continue
		}
		zzverif.Assert(zzverif.GenIsNilLeaf(leaf) == !has[i], "C12 (pflag) generated named type ["+gt.Desc+"]: leaf -"+names[i]+" set although its flag was not given, or unset although it was")
		if has[i] && !zzverif.GenIsNilLeaf(leaf) {
			zzverif.Assert(zzverif.GenLeafIs(leaf, l.Kind, 5), "C12 (pflag) generated named type ["+gt.Desc+"]: leaf -"+names[i]+" has the wrong value")
		}
	}
	zzverif.Reached("c16-pflaggen-end")
}

func HarnessC16PflagGen2() { c16pflaggen(2) }
func HarnessC16PflagPtrGen2() { c16pflaggenA(2, true) }
