package pflag

// C12 on the generated family of config struct types (zzverif.GenStruct): every struct of up to
// N fields over the shared alphabet, every subset of the derived flags on the command line.

import (
	"context"
	"reflect"
	"strconv"
	"strings"

	"github.com/vimeo/dials"
	"github.com/vimeo/dials/zzverif"
)

func c12pgen(nfields int) {
	shapes := make([]int, nfields)
	for i := range shapes {
		shapes[i] = zzverif.Choose("shape"+strconv.Itoa(i), zzverif.GenNumShapes())
	}
	gt, ok := zzverif.GenStruct(shapes)
	if !ok {
		zzverif.Reached("c12-pgen-end")
		return
	}
	names := make([]string, len(gt.Leaves))
	has := make([]bool, len(gt.Leaves))
	nv := zzverif.Int64("n")
	var args []string
	firstInt := -1
	for i, l := range gt.Leaves {
		names[i] = l.Name("-", strings.ToLower)
		has[i] = zzverif.Bool("has" + strconv.Itoa(i))
		if !has[i] {
			continue
		}
		if l.Kind == zzverif.GLInt8 && firstInt < 0 {
			firstInt = i
			args = append(args, "--"+names[i], zzverif.Literal(nv, zzverif.StyleDecimal))
			continue
		}
		args = append(args, "--"+names[i], zzverif.GenText(l.Kind, "5"))
	}
	tmpl := reflect.New(gt.T).Interface()
	fs, err := NewSetWithArgs(DefaultFlagNameConfig(), tmpl, args)
	zzverif.Assert(err == nil, "C12 (pflag) generated type ["+gt.Desc+"]: registering flags failed")
	if err != nil {
		return
	}
	for _, n := range names {
		if fs.Flags.Lookup(n) == nil {
			zzverif.Fail("C12 (pflag) generated type [" + gt.Desc + "]: no flag named " + n + " was registered")
			return
		}
	}
	val, verr := fs.Value(context.Background(), dials.NewType(fs.ptrType))
	inRange := zzverif.Implies(firstInt >= 0, zzverif.And(nv >= -128, nv <= 127))
	if verr != nil {
		zzverif.Assert(zzverif.Not(inRange), "C12 (pflag) generated type ["+gt.Desc+"]: the flag source failed although every flag given holds a valid in-range value")
		zzverif.Reached("c12-pgen-error")
		return
	}
	zzverif.Assert(inRange, "C12 (pflag) generated type ["+gt.Desc+"]: out-of-range value accepted")
	for i, l := range gt.Leaves {
		for n := 1; n < len(l.Path); n++ {
			anyBelow := false
			for j, m := range gt.Leaves {
				if len(m.Path) > n && strings.Join(m.Path[:n], ".") == strings.Join(l.Path[:n], ".") && has[j] {
					anyBelow = true
				}
			}
			p := zzverif.GenParent(val, l, n)
			if p.IsValid() {
				zzverif.Assert(zzverif.GenIsNilLeaf(p) == !anyBelow, "C12 (pflag) generated type ["+gt.Desc+"]: struct "+strings.Join(l.Path[:n], ".")+" set although none of its flags was given, or unset although one was")
			}
		}
		leaf, reached := zzverif.GenGet(val, l)
		if !leaf.IsValid() {
			zzverif.Assert(!has[i] && reached >= 1, "C12 (pflag) generated type ["+gt.Desc+"]: leaf -"+names[i]+" is unreachable although its flag was given")
			continue
		}
		zzverif.Assert(zzverif.GenIsNilLeaf(leaf) == !has[i], "C12 (pflag) generated type ["+gt.Desc+"]: leaf -"+names[i]+" set although its flag was not on the command line, or unset although it was")
		if has[i] && !zzverif.GenIsNilLeaf(leaf) {
			if i == firstInt {
				lv := leaf
				for lv.Kind() == reflect.Ptr {
					lv = lv.Elem()
				}
				zzverif.Assert(lv.Int() == nv, "C12 (pflag) generated type ["+gt.Desc+"]: leaf -"+names[i]+" has the wrong value")
			} else {
				zzverif.Assert(zzverif.GenLeafIs(leaf, l.Kind, 5), "C12 (pflag) generated type ["+gt.Desc+"]: leaf -"+names[i]+" has the wrong value")
			}
		}
	}
	zzverif.Reached("c12-pgen-end")
}

func HarnessC12PflagGen2() { c12pgen(2) }
func HarnessC12PflagGen3() { c12pgen(3) }
