package flag

// C14 (standard-library flag source): either flag name sets the field, both together are an
// error naming the field; aliased fields of scalar, slice, set and nested kinds.

import (
	"context"
	"reflect"
	"strings"

	"github.com/vimeo/dials"
	"github.com/vimeo/dials/zzverif"
)

type c14fdb struct {
	Host string `dials:"host" dialsalias:"hostname"`
	Port int16  `dials:"port"`
}

type c14fcfg struct {
	Name  string              `dials:"name" dialsalias:"oldname"`
	Tags  []string            `dials:"tags" dialsalias:"labels"`
	Seen  map[string]struct{} `dials:"seen" dialsalias:"visited"`
	Level int8                `dials:"level" dialsflag:"lvl" dialsflagalias:"old-lvl"`
	DB    c14fdb              `dials:"db"`
	Plain int8                `dials:"plain"`
}

func HarnessC14Flag() {
	var args []string
	pat := func(name, primary, alias, val string) int {
		p := zzverif.Choose("pat_"+name, 4)
		if p&1 != 0 {
			args = append(args, "-"+primary, val)
		}
		if p&2 != 0 {
			args = append(args, "-"+alias, val)
		}
		return p
	}
	pName := pat("name", "name", "oldname", "n")
	pTags := pat("tags", "tags", "labels", "a,b")
	pSeen := pat("seen", "seen", "visited", "x")
	pLvl := pat("lvl", "lvl", "old-lvl", "3")
	pHost := pat("host", "db-host", "db-hostname", "h")
	plain := zzverif.Choose("plain", 2) == 1
	if plain {
		args = append(args, "-plain", "5")
	}
	tmpl := c14fcfg{Name: "dn", Tags: []string{"t0"}}
	fs, err := NewSetWithArgs(DefaultFlagNameConfig(), &tmpl, args)
	zzverif.Assert(err == nil, "C14 registering flags for a config with aliased fields failed")
	if err != nil {
		return
	}
	for _, n := range []string{"name", "oldname", "tags", "labels", "seen", "visited", "lvl", "old-lvl", "db-host", "db-hostname", "plain"} {
		if fs.Flags.Lookup(n) == nil {
			zzverif.Fail("C14 no flag named " + n + " was registered")
			return
		}
	}
	val, verr := fs.Value(context.Background(), dials.NewType(fs.ptrType))
	anyBoth := pName == 3 || pTags == 3 || pSeen == 3 || pLvl == 3 || pHost == 3
	if verr != nil {
		zzverif.Assert(anyBoth, "C14 the flag source failed although no field was given under both its names")
		msg := verr.Error()
		named := (pName == 3 && strings.Contains(msg, "Name")) || (pTags == 3 && strings.Contains(msg, "Tags")) || (pSeen == 3 && strings.Contains(msg, "Seen")) ||
			(pLvl == 3 && strings.Contains(msg, "Level")) || (pHost == 3 && strings.Contains(msg, "Host"))
		if !zzverif.Symbolic() {
			zzverif.Assert(named, "C14 the both-names error does not name the field: "+msg)
		}
		zzverif.Reached("c14-flag-both-error")
		return
	}
	zzverif.Assert(!anyBoth, "C14 a field given under both its primary and alias flag did not produce an error")
	f := func(n string) reflect.Value { return val.FieldByName(n) }
	zzverif.Assert(f("Name").IsNil() == (pName == 0), "C14 -name/-oldname: field set although neither flag was given, or unset although one was")
	if pName != 0 && !f("Name").IsNil() {
		zzverif.Assert(f("Name").Elem().String() == "n", "C14 -name/-oldname: wrong value")
	}
	zzverif.Assert(f("Tags").IsNil() == (pTags == 0), "C14 -tags/-labels: slice field set/unset wrongly")
	if pTags != 0 && !f("Tags").IsNil() {
		zzverif.Assert(f("Tags").Len() == 2 && f("Tags").Index(1).String() == "b", "C14 -tags/-labels: wrong value")
	}
	zzverif.Assert(f("Seen").IsNil() == (pSeen == 0), "C14 -seen/-visited: set field set/unset wrongly")
	if pSeen != 0 && !f("Seen").IsNil() {
		zzverif.Assert(f("Seen").Len() == 1 && f("Seen").MapIndex(reflect.ValueOf("x")).IsValid(), "C14 -seen/-visited: wrong value")
	}
	zzverif.Assert(f("Level").IsNil() == (pLvl == 0), "C14 -lvl/-old-lvl: field set/unset wrongly")
	if pLvl != 0 && !f("Level").IsNil() {
		zzverif.Assert(f("Level").Elem().Int() == 3, "C14 -lvl/-old-lvl: wrong value")
	}
	zzverif.Assert(f("DB").IsNil() == (pHost == 0), "C14 -db-host/-db-hostname: nested struct set/unset wrongly")
	if pHost != 0 && !f("DB").IsNil() {
		h := f("DB").Elem().FieldByName("Host")
		zzverif.Assert(!h.IsNil() && h.Elem().String() == "h", "C14 -db-host/-db-hostname: wrong value")
	}
	zzverif.Assert(f("Plain").IsNil() == !plain, "C14 an unaliased field was affected by aliases")
	zzverif.Reached("c14-flag-end")
}
