package flag

// C16 (type half, flag source): named complex types, text-unmarshalable types of slice kind (like
// net.IP), and a Set that is asked for its value twice.

import (
	"context"

	"github.com/vimeo/dials"
	"github.com/vimeo/dials/zzverif"
)

type c16Gain complex64
type c16Phase complex128

// c16addr is a text-unmarshalable type whose kind is slice (like net.IP)
type c16addr []byte

func (a *c16addr) UnmarshalText(b []byte) error { *a = append((*a)[:0], b...); return nil }
func (a c16addr) MarshalText() ([]byte, error)  { return []byte(a), nil }

type c16fn struct {
	G    c16Gain
	P    c16Phase
	Addr c16addr
	N    int16
}

func HarnessC16FlagNamed() {
	var args []string
	hG, hP, hA, hN := zzverif.Bool("has_g"), zzverif.Bool("has_p"), zzverif.Bool("has_addr"), zzverif.Bool("has_n")
	if hG {
		args = append(args, "-g", "1+2i")
	}
	if hP {
		args = append(args, "-p", "3+4i")
	}
	if hA {
		args = append(args, "-addr", "abc")
	}
	if hN {
		args = append(args, "-n", "7")
	}
	tmpl := c16fn{}
	fs, err := NewSetWithArgs(DefaultFlagNameConfig(), &tmpl, args)
	if err != nil {
		zzverif.Reached("c16-flag-named-error")
		return
	}
	t := dials.NewType(fs.ptrType)
	val, verr := fs.Value(context.Background(), t)
	if verr == nil {
		f := func(n string) bool { return !val.FieldByName(n).IsNil() }
		zzverif.Assert(f("G") == hG && f("P") == hP && f("N") == hN, "C12 a named complex or integer leaf is set although its flag was not given, or unset although it was")
		zzverif.Assert((val.FieldByName("Addr").Len() > 0) == hA, "C12 a text-unmarshalable leaf of slice kind is set/unset wrongly")
		if hG && f("G") {
			zzverif.Assert(val.FieldByName("G").Elem().Complex() == complex(1, 2), "C12 -g: wrong value")
		}
		if hA && val.FieldByName("Addr").Len() == 3 {
			zzverif.Assert(val.FieldByName("Addr").Index(0).Uint() == 'a', "C12 -addr: wrong value")
		}
	}
	// the same Set asked again (a second Config call with the same source): same answer, no panic
	val2, verr2 := fs.Value(context.Background(), t)
	zzverif.Assert((verr == nil) == (verr2 == nil), "C12 a second Value call on the same flag Set disagrees with the first about success")
	if verr == nil && verr2 == nil {
		zzverif.Assert(val2.FieldByName("N").IsNil() == !hN, "C12 a second Value call on the same flag Set lost or invented a leaf")
		if hN && !val2.FieldByName("N").IsNil() {
			zzverif.Assert(val2.FieldByName("N").Elem().Int() == 7, "C12 a second Value call returned a different value")
		}
	}
	zzverif.Reached("c16-flag-named-end")
}
