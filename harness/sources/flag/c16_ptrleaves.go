package flag

// C16 (type half, flag source): user-declared pointer leaves, nil or set in the template.

import (
	"context"
	"reflect"

	"github.com/vimeo/dials"
	"github.com/vimeo/dials/zzverif"
)

type c16fp struct {
	PC   *complex128
	PZ   *complex64
	PT   *c12text
	PN   *int16
	PStr *string
	PL   *[]string
	Sub  *struct {
		PC *complex128
		N  *uint8
	}
}

func HarnessC16FlagPtrLeaves() {
	tmpl := c16fp{}
	if zzverif.Choose("template", 2) == 1 {
		c, z, n, s := complex(3, 4), complex64(complex(5, 6)), int16(9), "s"
		tmpl.PC, tmpl.PZ, tmpl.PT, tmpl.PN, tmpl.PStr = &c, &z, &c12text{v: "t"}, &n, &s
	}
	var args []string
	hPC, hPT, hPN, hSubPC := zzverif.Bool("has_pc"), zzverif.Bool("has_pt"), zzverif.Bool("has_pn"), zzverif.Bool("has_sub_pc")
	pn := zzverif.Int64("pn")
	zzverif.Assume(zzverif.And(pn >= -1<<15, pn <= 1<<15-1))
	if hPC {
		args = append(args, "-pc", "1+2i")
	}
	if hPT {
		args = append(args, "-pt", "txt")
	}
	if hPN {
		args = append(args, "-pn", zzverif.Literal(pn, zzverif.StyleDecimal))
	}
	if hSubPC {
		args = append(args, "-sub-pc", "2+1i")
	}
	fs, err := NewSetWithArgs(DefaultFlagNameConfig(), &tmpl, args)
	zzverif.Assert(err == nil, "C16 registering flags for user-declared pointer leaves failed")
	if err != nil {
		return
	}
	val, verr := fs.Value(context.Background(), dials.NewType(fs.ptrType))
	zzverif.Assert(verr == nil, "C16 the flag source failed on valid values for user-declared pointer leaves")
	if verr != nil {
		return
	}
	f := func(n string) reflect.Value { return val.FieldByName(n) }
	zzverif.Assert(f("PC").IsNil() == !hPC, "C12 -pc: pointer leaf set/unset wrongly")
	if hPC && !f("PC").IsNil() {
		zzverif.Assert(f("PC").Elem().Complex() == complex(1, 2), "C12 -pc: wrong value")
	}
	zzverif.Assert(f("PT").IsNil() == !hPT, "C12 -pt: pointer leaf set/unset wrongly")
	zzverif.Assert(f("PN").IsNil() == !hPN, "C12 -pn: pointer leaf set/unset wrongly")
	if hPN && !f("PN").IsNil() {
		zzverif.Assert(f("PN").Elem().Int() == pn, "C12 -pn: wrong value")
	}
	zzverif.Assert(f("Sub").IsNil() == !hSubPC, "C12 -sub-pc: nested pointer struct set/unset wrongly")
	zzverif.Reached("c16-flag-ptr-end")
}
