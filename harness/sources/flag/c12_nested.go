package flag

// C12: two levels of nesting (a set leaf followed by an unset nested sibling), a Set built by
// hand around a FlagSet in which the user already registered one of the flags, and no template
// (so every default comes from the zero value of the leaf type).

import (
	"context"
	"flag"
	"reflect"

	"github.com/vimeo/dials"
	"github.com/vimeo/dials/ptrify"
	"github.com/vimeo/dials/zzverif"
)

type c12tls struct {
	Cert string
	Key  string
}

type c12srv struct {
	Port int16
	TLS  c12tls
	Name string
}

type c12text struct{ v string }

func (t *c12text) UnmarshalText(b []byte) error { t.v = string(b); return nil }
func (t c12text) MarshalText() ([]byte, error)  { return []byte(t.v), nil }

type c12bare struct {
	Port  int16
	Name  string
	Z     complex128
	Tags  []string
	TU    c12text
	Srv   c12srv
	After string
}

func HarnessC12Nested() {
	var args []string
	has := func(n string) bool { return zzverif.Bool("has_" + n) }
	port, hPort := zzverif.Int64("port"), has("port")
	sport, hSPort := zzverif.Int64("sport"), has("srv-port")
	hName, hZ, hTags, hTU := has("name"), has("z"), has("tags"), has("tu")
	hCert, hKey, hSName, hAfter := has("cert"), has("key"), has("srv-name"), has("after")
	if hPort {
		args = append(args, "-port", zzverif.Literal(port, zzverif.StyleDecimal))
	}
	if hSPort {
		args = append(args, "-srv-port", zzverif.Literal(sport, zzverif.StyleDecimal))
	}
	if hName {
		args = append(args, "-name", "nm")
	}
	if hZ {
		args = append(args, "-z", "1+2i")
	}
	if hTags {
		args = append(args, "-tags", "a")
	}
	if hTU {
		args = append(args, "-tu", "txt")
	}
	if hCert {
		args = append(args, "-srv-tls-cert", "c")
	}
	if hKey {
		args = append(args, "-srv-tls-key", "k")
	}
	if hSName {
		args = append(args, "-srv-name", "sn")
	}
	if hAfter {
		args = append(args, "-after", "af")
	}
	fs := flag.NewFlagSet("", flag.ContinueOnError)
	userPort := fs.Int("port", 7, "registered by the user before dials got the flag set")
	s := &Set{Flags: fs, ParseFunc: func() error { return fs.Parse(args) }}
	t := dials.NewType(ptrify.Pointerify(reflect.TypeOf(c12bare{}), reflect.Value{}))
	val, verr := s.Value(context.Background(), t)
	inRange := zzverif.And(zzverif.Implies(hPort, zzverif.And(port >= -1<<15, port <= 1<<15-1)), zzverif.Implies(hSPort, zzverif.And(sport >= -1<<15, sport <= 1<<15-1)))
	if verr != nil {
		zzverif.Assert(zzverif.Not(inRange), "C12 the flag source failed although every flag given holds a valid in-range value")
		zzverif.Reached("c12-nested-error")
		return
	}
	zzverif.Assert(inRange, "C12 the flag source accepted a value outside the leaf type's range")
	for _, n := range []string{"port", "name", "z", "tags", "tu", "srv-port", "srv-tls-cert", "srv-tls-key", "srv-name", "after"} {
		if fs.Lookup(n) == nil {
			zzverif.Fail("C12 no flag named " + n + " was registered")
			return
		}
	}
	f := func(n string) reflect.Value { return val.FieldByName(n) }
	chk := func(present bool, v reflect.Value, what string) bool {
		zzverif.Assert(v.IsNil() == !present, "C12 "+what+": leaf set although its flag was not on the command line, or unset although it was")
		return present && !v.IsNil()
	}
	if chk(hPort, f("Port"), "-port (flag registered by the user beforehand)") {
		zzverif.Assert(f("Port").Elem().Int() == port && int64(*userPort) == port, "C12 -port: wrong value")
	}
	if chk(hName, f("Name"), "-name") {
		zzverif.Assert(f("Name").Elem().String() == "nm", "C12 -name: wrong value")
	}
	if chk(hZ, f("Z"), "-z") {
		zzverif.Assert(f("Z").Elem().Complex() == complex(1, 2), "C12 -z: wrong value")
	}
	zzverif.Assert(f("Tags").IsNil() == !hTags, "C12 -tags: set/unset wrongly")
	if chk(hTU, f("TU"), "-tu") {
		zzverif.Assert(f("TU").Elem().FieldByName("v").String() == "txt", "C12 -tu: wrong value")
	}
	chk(hAfter, f("After"), "-after")
	srvSet := hSPort || hCert || hKey || hSName
	zzverif.Assert(f("Srv").IsNil() == !srvSet, "C12 -srv-*: nested struct set although none of its flags was given, or unset although one was")
	if srvSet && !f("Srv").IsNil() {
		sv := f("Srv").Elem()
		if chk(hSPort, sv.FieldByName("Port"), "-srv-port") {
			zzverif.Assert(sv.FieldByName("Port").Elem().Int() == sport, "C12 -srv-port: wrong value")
		}
		chk(hSName, sv.FieldByName("Name"), "-srv-name")
		tlsSet := hCert || hKey
		zzverif.Assert(sv.FieldByName("TLS").IsNil() == !tlsSet, "C12 -srv-tls-*: inner struct set/unset wrongly")
		if tlsSet && !sv.FieldByName("TLS").IsNil() {
			tl := sv.FieldByName("TLS").Elem()
			chk(hCert, tl.FieldByName("Cert"), "-srv-tls-cert")
			chk(hKey, tl.FieldByName("Key"), "-srv-tls-key")
		}
	}
	zzverif.Reached("c12-nested-end")
}
