package flag

// C12 (standard-library flag source): advertised defaults, only visited flags set leaves,
// range errors, accumulation.

import (
	"time"
	"context"
	"reflect"
	"strconv"

	"github.com/vimeo/dials"
	"github.com/vimeo/dials/zzverif"
)

type c12peer struct {
	Addr string
	TTL  uint16 `dials:"time-to-live"`
}

type c12cfg struct {
	Port    int8
	Count   int64
	Name    string
	Peer    c12peer
	Verbose bool
	Tags    []string
	Nums    []int16
	Labels  map[string]string
	Custom  uint8 `dialsflag:"my-custom"`
	Ratio   float32
	Big     []uint64
	Z64     complex64
	Seen    map[string]struct{} // nil in the template
	Multi   map[string][]string // nil in the template
}

func c12run(scalars, colls bool) {
	tmpl := c12cfg{
		Port: zzverif.Int8("dPort"), Count: zzverif.Int64("dCount"), Name: "dn", Peer: c12peer{Addr: "da", TTL: zzverif.Uint16("dTTL")},
		Verbose: zzverif.Bool("dVerbose"), Tags: []string{"t0"}, Custom: zzverif.Byte("dCustom"), Ratio: 0.5,
		Big: []uint64{1, 1 << 63},
	}
	dPort, dCount, dTTL, dVerbose, dCustom := tmpl.Port, tmpl.Count, tmpl.Peer.TTL, tmpl.Verbose, tmpl.Custom
	var args []string
	has := func(n string) bool { return scalars && zzverif.Bool("has_"+n) }
	choose := func(n string, k int) int {
		if !colls {
			return 0
		}
		return zzverif.Choose(n, k)
	}
	port, hPort := zzverif.Int64("port"), has("port")
	count, hCount := zzverif.Int64("count"), has("count")
	ttl, hTTL := zzverif.Uint64("ttl"), has("ttl")
	custom, hCustom := zzverif.Uint64("custom"), has("custom")
	verbose, hVerbose := zzverif.Bool("verbose"), has("verbose")
	hName, hAddr := has("name"), has("addr")
	tagsMode := choose("tags", 3)   // absent, once, twice (accumulates)
	numsMode := choose("nums", 3)   // absent, once, twice
	labelsMode := choose("labels", 2)
	ratioMode := choose("ratio", 3) // absent, in range, out of float32 range
	seenMode, multiMode, z64Mode := 0, 0, 0
	if !scalars {
		z64Mode = choose("z64", 4) // absent, in range, real part / imaginary part out of float32 range
		// (kept out of the full product of HarnessC12All, which is large enough already)
		seenMode = choose("seen", 3)   // absent, once, three times
		multiMode = choose("multi", 3) // absent, once, three times
	}
	n0, n1 := zzverif.Int64("n0"), zzverif.Int64("n1")
	if hPort {
		args = append(args, "-port", zzverif.Literal(port, zzverif.StyleDecimal))
	}
	if tagsMode >= 1 {
		args = append(args, "-tags", `a,"b,c"`)
	}
	if hCount {
		args = append(args, "-count", zzverif.Literal(count, zzverif.StyleDecimal))
	}
	if hName {
		args = append(args, "-name", "nm")
	}
	if hAddr {
		args = append(args, "-peer-addr", "pa")
	}
	if hTTL {
		args = append(args, "-peer-time-to-live", zzverif.LiteralU(ttl, zzverif.StyleDecimal))
	}
	if numsMode >= 1 {
		args = append(args, "-nums", zzverif.Literal(n0, zzverif.StyleDecimal))
	}
	if hVerbose {
		if verbose {
			args = append(args, "-verbose=true")
		} else {
			args = append(args, "-verbose=false")
		}
	}
	if tagsMode == 2 {
		args = append(args, "-tags", "d")
	}
	if numsMode == 2 {
		args = append(args, "-nums", zzverif.Literal(n1, zzverif.StyleDecimal))
	}
	if labelsMode == 1 {
		args = append(args, "-labels", "k:v", "-labels", "k2:v2")
	}
	if hCustom {
		args = append(args, "-my-custom", zzverif.LiteralU(custom, zzverif.StyleDecimal))
	}
	switch z64Mode {
	case 1:
		args = append(args, "-z64", "1+2i")
	case 2:
		args = append(args, "-z64", "1e39+1i")
	case 3:
		args = append(args, "-z64", "1+1e39i")
	}
	if seenMode >= 1 {
		args = append(args, "-seen", "a")
	}
	if multiMode >= 1 {
		args = append(args, "-multi", "k:v1")
	}
	if seenMode == 2 {
		args = append(args, "-seen", "b", "-seen", "c")
	}
	if multiMode == 2 {
		args = append(args, "-multi", "k:v2", "-multi", "k2:w")
	}
	switch ratioMode {
	case 1:
		args = append(args, "-ratio", "1.25")
	case 2:
		args = append(args, "-ratio", "1e39")
	}
	fs, err := NewSetWithArgs(DefaultFlagNameConfig(), &tmpl, args)
	zzverif.Assert(err == nil, "C12 registering flags failed")
	if err != nil {
		return
	}
	// advertised defaults are the template's values
	def := func(name string) string {
		f := fs.Flags.Lookup(name)
		if f == nil {
			zzverif.Fail("C12 no flag named " + name + " was registered")
			return ""
		}
		return f.DefValue
	}
	zzverif.Assert(zzverif.StrEq(def("port"), strconv.Itoa(int(dPort))), "C12 flag port: the advertised default is not the template's value")
	zzverif.Assert(zzverif.StrEq(def("count"), strconv.FormatInt(dCount, 10)), "C12 flag count: the advertised default is not the template's value")
	zzverif.Assert(zzverif.StrEq(def("peer-time-to-live"), strconv.FormatUint(uint64(dTTL), 10)), "C12 flag peer-time-to-live: the advertised default is not the template's value")
	zzverif.Assert(zzverif.StrEq(def("my-custom"), strconv.FormatUint(uint64(dCustom), 10)), "C12 flag my-custom: the advertised default is not the template's value")
	zzverif.Assert(def("name") == "dn" && def("peer-addr") == "da", "C12 string flags: the advertised default is not the template's value")
	zzverif.Assert(def("verbose") == strconv.FormatBool(dVerbose), "C12 flag verbose: the advertised default is not the template's value")
	zzverif.Assert(def("tags") == `"t0"`, "C12 flag tags: the advertised default is not the template's value")
	zzverif.Assert(def("big") == "1,9223372036854775808", "C12 flag big: the advertised default of an unsigned slice is not the template's value")

	t := dials.NewType(fs.ptrType)
	val, verr := fs.Value(context.Background(), t)
	n0ok := zzverif.And(n0 >= -1<<15, n0 <= 1<<15-1)
	n1ok := zzverif.And(n1 >= -1<<15, n1 <= 1<<15-1)
	inRange := zzverif.And(
		zzverif.And(zzverif.Implies(hPort, zzverif.And(port >= -128, port <= 127)), zzverif.Implies(hTTL, ttl <= 0xffff)),
		zzverif.And(zzverif.Implies(hCustom, custom <= 0xff), zzverif.And(zzverif.Implies(numsMode >= 1, n0ok), zzverif.Implies(numsMode == 2, n1ok))))
	inRange = zzverif.And(inRange, ratioMode != 2 && z64Mode < 2)
	if verr != nil {
		zzverif.Assert(zzverif.Not(inRange), "C12 the flag source failed although every flag given holds a valid in-range value")
		zzverif.Reached("c12-error")
		return
	}
	zzverif.Assert(inRange, "C12 the flag source accepted a value outside the leaf type's range")
	f := func(n string) reflect.Value { return val.FieldByName(n) }
	chk := func(present bool, v reflect.Value, what string) bool {
		zzverif.Assert(v.IsNil() == !present, "C12 "+what+": leaf set although its flag was not on the command line, or unset although it was")
		return present && !v.IsNil()
	}
	if chk(hPort, f("Port"), "-port") {
		zzverif.Assert(f("Port").Elem().Int() == port, "C12 -port: wrong value")
	}
	if chk(hCount, f("Count"), "-count") {
		zzverif.Assert(f("Count").Elem().Int() == count, "C12 -count: wrong value")
	}
	if chk(hName, f("Name"), "-name") {
		zzverif.Assert(f("Name").Elem().String() == "nm", "C12 -name: wrong value")
	}
	peerSet := hAddr || hTTL
	zzverif.Assert(f("Peer").IsNil() == !peerSet, "C12 -peer-*: nested struct set/unset wrongly")
	if peerSet && !f("Peer").IsNil() {
		pe := f("Peer").Elem()
		if chk(hAddr, pe.FieldByName("Addr"), "-peer-addr") {
			zzverif.Assert(pe.FieldByName("Addr").Elem().String() == "pa", "C12 -peer-addr: wrong value")
		}
		if chk(hTTL, pe.FieldByName("TTL"), "-peer-time-to-live") {
			zzverif.Assert(pe.FieldByName("TTL").Elem().Uint() == ttl, "C12 -peer-time-to-live: wrong value")
		}
	}
	if chk(hVerbose, f("Verbose"), "-verbose") {
		zzverif.Assert(f("Verbose").Elem().Bool() == verbose, "C12 -verbose: wrong value")
	}
	if chk(hCustom, f("Custom"), "-my-custom") {
		zzverif.Assert(f("Custom").Elem().Uint() == custom, "C12 -my-custom: wrong value")
	}
	zzverif.Assert(f("Tags").IsNil() == (tagsMode == 0), "C12 -tags: slice leaf set/unset wrongly")
	if tagsMode != 0 && !f("Tags").IsNil() {
		tg := f("Tags")
		want := 2
		if tagsMode == 2 {
			want = 3
		}
		zzverif.Assert(tg.Len() == want && tg.Index(0).String() == "a" && tg.Index(1).String() == "b,c", "C12 -tags: repeated slice flags must accumulate (and replace the default)")
	}
	zzverif.Assert(f("Nums").IsNil() == (numsMode == 0), "C12 -nums: slice leaf set/unset wrongly")
	if numsMode != 0 && !f("Nums").IsNil() {
		ns := f("Nums")
		zzverif.Assert(ns.Len() == numsMode && ns.Index(0).Int() == n0, "C12 -nums: wrong elements")
		if numsMode == 2 && ns.Len() == 2 {
			zzverif.Assert(ns.Index(1).Int() == n1, "C12 -nums: repeated integer slice flags must accumulate")
		}
	}
	zzverif.Assert(f("Labels").IsNil() == (labelsMode == 0), "C12 -labels: map leaf set/unset wrongly")
	if labelsMode == 1 && !f("Labels").IsNil() {
		zzverif.Assert(f("Labels").Len() == 2, "C12 -labels: repeated map flags must accumulate")
	}
	zzverif.Assert(f("Ratio").IsNil() == (ratioMode == 0), "C12 -ratio: leaf set/unset wrongly")
	zzverif.Assert(f("Z64").IsNil() == (z64Mode == 0), "C12 -z64: leaf set/unset wrongly")
	if z64Mode == 1 && !f("Z64").IsNil() {
		zzverif.Assert(f("Z64").Elem().Complex() == complex(1, 2), "C12 -z64: wrong value")
	}
	zzverif.Assert(f("Seen").IsNil() == (seenMode == 0), "C12 -seen: set leaf set/unset wrongly")
	if seenMode != 0 && !f("Seen").IsNil() {
		want := []string{"a"}
		if seenMode == 2 {
			want = []string{"a", "b", "c"}
		}
		okAll := f("Seen").Len() == len(want)
		for _, w := range want {
			okAll = okAll && f("Seen").MapIndex(reflect.ValueOf(w)).IsValid()
		}
		zzverif.Assert(okAll, "C12 -seen: repeated set flags must accumulate (every occurrence, the first included)")
	}
	zzverif.Assert(f("Multi").IsNil() == (multiMode == 0), "C12 -multi: map leaf set/unset wrongly")
	if multiMode != 0 && !f("Multi").IsNil() {
		kv := f("Multi").MapIndex(reflect.ValueOf("k"))
		if multiMode == 1 {
			zzverif.Assert(f("Multi").Len() == 1 && kv.IsValid() && kv.Len() == 1 && kv.Index(0).String() == "v1", "C12 -multi: wrong value")
		} else {
			zzverif.Assert(f("Multi").Len() == 2 && kv.IsValid() && kv.Len() == 2 && kv.Index(0).String() == "v1" && kv.Index(1).String() == "v2", "C12 -multi: repeated map flags must accumulate (every occurrence, the first included)")
		}
	}
	zzverif.Reached("c12-end")
}

// HarnessC12Scalars: every subset of the scalar flags, every value and template default.
func HarnessC12Scalars() { c12run(true, false) }

// HarnessC12Collections: slice/map/float flags (absent, once, repeated).
func HarnessC12Collections() { c12run(false, true) }

// HarnessC12All: the full product (thorough).
func HarnessC12All() { c12run(true, true) }

type c12extra struct {
	When  time.Time
	Nums  []int16
	Sizes []uint8
	Until time.Time
}

// HarnessC12Extras: a time leaf advertises its full template value (nanoseconds included), and an
// integer slice flag given with an empty list sets its leaf to an empty list (not to "unset").
func HarnessC12Extras() {
	when := time.Unix(1700000000, 123456789).UTC()
	tmpl := c12extra{When: when, Nums: []int16{7}, Sizes: []uint8{1}}
	var args []string
	numsMode := zzverif.Choose("nums", 3)   // absent, empty list, empty list then a value
	sizesMode := zzverif.Choose("sizes", 2) // absent, empty list
	untilMode := zzverif.Choose("until", 2)
	switch numsMode {
	case 1:
		args = append(args, "-nums", "")
	case 2:
		args = append(args, "-nums", "", "-nums", "3")
	}
	if sizesMode == 1 {
		args = append(args, "-sizes", "")
	}
	if untilMode == 1 {
		args = append(args, "-until", "2024-01-02T03:04:05.5Z")
	}
	fs, err := NewSetWithArgs(DefaultFlagNameConfig(), &tmpl, args)
	zzverif.Assert(err == nil, "C12 registering flags failed")
	if err != nil {
		return
	}
	wf := fs.Flags.Lookup("when")
	zzverif.Assert(wf != nil && wf.DefValue == "2023-11-14T22:13:20.123456789Z", "C12 flag when: the advertised default is not the template's value (sub-second part included)")
	nf := fs.Flags.Lookup("nums")
	zzverif.Assert(nf != nil && nf.DefValue == "7", "C12 flag nums: the advertised default is not the template's value")
	val, verr := fs.Value(context.Background(), dials.NewType(fs.ptrType))
	zzverif.Assert(verr == nil, "C12 the flag source failed although every flag given holds a valid value")
	if verr != nil {
		return
	}
	zzverif.Assert(val.FieldByName("When").IsNil(), "C12 -when: leaf set although its flag was not on the command line")
	ns := val.FieldByName("Nums")
	zzverif.Assert(ns.IsNil() == (numsMode == 0), "C12 -nums: a slice flag that appeared on the command line (with an empty list) must set its leaf, and only then")
	if numsMode == 2 && !ns.IsNil() {
		zzverif.Assert(ns.Len() == 1 && ns.Index(0).Int() == 3, "C12 -nums: repeated integer slice flags must accumulate")
	}
	if numsMode == 1 && !ns.IsNil() {
		zzverif.Assert(ns.Len() == 0, "C12 -nums with an empty list: the default leaked into the parsed value")
	}
	sz := val.FieldByName("Sizes")
	zzverif.Assert(sz.IsNil() == (sizesMode == 0), "C12 -sizes: a slice flag that appeared on the command line (with an empty list) must set its leaf, and only then")
	un := val.FieldByName("Until")
	zzverif.Assert(un.IsNil() == (untilMode == 0), "C12 -until: leaf set/unset wrongly")
	if untilMode == 1 && !un.IsNil() {
		got := un.Elem().Interface().(time.Time)
		zzverif.Assert(got.Equal(time.Date(2024, 1, 2, 3, 4, 5, 500000000, time.UTC)), "C12 -until: wrong value")
	}
	zzverif.Reached("c12-extras-end")
}
