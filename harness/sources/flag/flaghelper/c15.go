package flaghelper

// C15: parsing the canonical text form (what the flag helpers print) returns exactly the value.

import (
	"math"
	"github.com/vimeo/dials/zzverif"
)

func c15signedRT[I SignedInt](name string, vals []I) {
	in := append([]I(nil), vals...)
	text := NewSignedIntegralSlice(&in).String()
	var out []I
	err := NewSignedIntegralSlice(&out).Set(text)
	zzverif.Assert(err == nil, "C15 "+name+": the canonical text printed by the flag helper does not parse")
	if err != nil {
		return
	}
	zzverif.Assert(len(out) == len(vals), "C15 "+name+": round trip changed the number of elements")
	for i := range vals {
		if i < len(out) {
			zzverif.Assert(out[i] == vals[i], "C15 "+name+": round trip through String()/Set() changed a value")
		}
	}
}

func c15unsignedRT[I UnsignedInt](name string, vals []I) {
	in := append([]I(nil), vals...)
	text := NewUnsignedIntegralSlice(&in).String()
	var out []I
	err := NewUnsignedIntegralSlice(&out).Set(text)
	zzverif.Assert(err == nil, "C15 "+name+": the canonical text printed by the flag helper does not parse")
	if err != nil {
		return
	}
	zzverif.Assert(len(out) == len(vals), "C15 "+name+": round trip changed the number of elements")
	for i := range vals {
		if i < len(out) {
			zzverif.Assert(out[i] == vals[i], "C15 "+name+": round trip through String()/Set() changed a value")
		}
	}
}

// HarnessC15HelperInts: integer slice helpers round-trip every value of every width (1-2 elements).
func HarnessC15HelperInts() {
	n := 1 + zzverif.Choose("n", 2)
	switch zzverif.Choose("type", 8) {
	case 0:
		c15signedRT("[]int8", []int8{zzverif.Int8("a"), zzverif.Int8("b")}[:n])
	case 1:
		c15signedRT("[]int16", []int16{zzverif.Int16("a"), zzverif.Int16("b")}[:n])
	case 2:
		c15signedRT("[]int32", []int32{zzverif.Int32("a"), zzverif.Int32("b")}[:n])
	case 3:
		c15signedRT("[]int64", []int64{zzverif.Int64("a"), zzverif.Int64("b")}[:n])
	case 4:
		c15unsignedRT("[]uint8", []uint8{zzverif.Byte("a"), zzverif.Byte("b")}[:n])
	case 5:
		c15unsignedRT("[]uint16", []uint16{zzverif.Uint16("a"), zzverif.Uint16("b")}[:n])
	case 6:
		c15unsignedRT("[]uint32", []uint32{zzverif.Uint32("a"), zzverif.Uint32("b")}[:n])
	case 7:
		c15unsignedRT("[]uint64", []uint64{zzverif.Uint64("a"), zzverif.Uint64("b")}[:n])
	}
	zzverif.Reached("c15-helper-ints-end")
}

// HarnessC15HelperStrings: string slice / set / map helpers round-trip strings with arbitrary
// payload bytes (quotes, backslashes, commas, colons, control and non-ASCII bytes).
func c15helperStrings(payload int) {
	s0 := zzverif.Bytes("s0", payload)
	s1 := zzverif.Bytes("s1", 1)
	switch zzverif.Choose("kind", 3) {
	case 0:
		n := 1 + zzverif.Choose("n", 2)
		in := []string{s0, s1}[:n]
		text := NewStringSliceFlag(&in).String()
		var dst []string
		g := NewStringSliceFlag(&dst)
		err := g.Set(text)
		zzverif.Assert(err == nil, "C15 []string: the canonical quoted text printed by the flag helper does not parse")
		if err == nil {
			out, _ := g.Get().([]string)
			zzverif.Assert(len(out) == n, "C15 []string: round trip changed the number of elements")
			if len(out) == n {
				zzverif.Assert(zzverif.StrEq(out[0], s0), "C15 []string: round trip through String()/Set() changed a string")
				if n == 2 {
					zzverif.Assert(zzverif.StrEq(out[1], s1), "C15 []string: round trip changed the second string")
				}
			}
		}
	case 1:
		in := map[string]struct{}{s0: {}}
		text := NewStringSetFlag(&in).String()
		var out map[string]struct{}
		err := NewStringSetFlag(&out).Set(text)
		zzverif.Assert(err == nil, "C15 string set: the canonical text does not parse")
		if err == nil {
			_, ok := out[s0]
			zzverif.Assert(len(out) == 1 && ok, "C15 string set: round trip changed the element")
		}
	case 2:
		zzverif.Assume(payload > 0)
		in := map[string]string{s0: s1}
		text := NewMapStringStringFlag(&in).String()
		var out map[string]string
		err := NewMapStringStringFlag(&out).Set(text)
		zzverif.Assert(err == nil, "C15 map[string]string: the canonical text does not parse")
		if err == nil {
			v, ok := out[s0]
			zzverif.Assert(len(out) == 1 && ok && zzverif.StrEq(v, s1), "C15 map[string]string: round trip changed the pair")
		}
	}
	zzverif.Reached("c15-helper-strings-end")
}

// HarnessC15HelperEmpty: empty strings as elements, map values and slice-map values survive the
// canonical text form (the empty value is a value, not a missing one).
func HarnessC15HelperEmpty() {
	k := "k"
	kind := zzverif.Choose("kind", 7)
	if kind == 2 {
		// (the map and set helpers sort their keys when printing: those stay concrete)
		k = zzverif.Bytes("k", 1)
		zzverif.Assume(zzverif.InRange(k[0], 'a', 'z'))
	}
	switch kind {
	case 0:
		in := map[string]string{k: "", "zz": "x"}
		text := NewMapStringStringFlag(&in).String()
		var out map[string]string
		err := NewMapStringStringFlag(&out).Set(text)
		zzverif.Assert(err == nil, "C15 map[string]string: the canonical text of a map with an empty value does not parse")
		if err == nil {
			v, ok := out[k]
			zzverif.Assert(ok && v == "" && len(out) == 2 && out["zz"] == "x", "C15 map[string]string: an entry whose value is the empty string was lost or changed in the round trip")
		}
	case 1:
		in := map[string][]string{k: {"x", "", "y"}}
		text := NewMapStringStringSliceFlag(&in).String()
		var out map[string][]string
		err := NewMapStringStringSliceFlag(&out).Set(text)
		zzverif.Assert(err == nil, "C15 map[string][]string: the canonical text with an empty element does not parse")
		if err == nil {
			v := out[k]
			zzverif.Assert(len(out) == 1 && len(v) == 3 && v[0] == "x" && v[1] == "" && v[2] == "y", "C15 map[string][]string: an empty-string element was lost or changed in the round trip")
		}
	case 2:
		in := []string{"", k, ""}
		text := NewStringSliceFlag(&in).String()
		var dst []string
		g := NewStringSliceFlag(&dst)
		err := g.Set(text)
		zzverif.Assert(err == nil, "C15 []string: the canonical text with empty elements does not parse")
		if err == nil {
			out, _ := g.Get().([]string)
			zzverif.Assert(len(out) == 3 && out[0] == "" && zzverif.StrEq(out[1], k) && out[2] == "", "C15 []string: empty-string elements were lost or changed in the round trip")
		}
	case 4:
		// the empty string as a map key
		in := map[string]string{"": "v", "k": "w"}
		text := NewMapStringStringFlag(&in).String()
		var out map[string]string
		err := NewMapStringStringFlag(&out).Set(text)
		zzverif.Assert(err == nil, "C15 map[string]string: the canonical text of a map with the empty string as a key does not parse")
		if err == nil {
			v, ok := out[""]
			zzverif.Assert(ok && v == "v" && len(out) == 2 && out["k"] == "w", "C15 map[string]string: the entry whose key is the empty string was lost or changed in the round trip")
		}
	case 5:
		// an empty slice of integers prints as the empty text
		in := []int16{}
		text := NewSignedIntegralSlice(&in).String()
		var out []int16
		err := NewSignedIntegralSlice(&out).Set(text)
		zzverif.Assert(err == nil && len(out) == 0, "C15 []int16: the canonical text of the empty slice does not parse back to the empty slice")
	case 6:
		in := []uint8{}
		text := NewUnsignedIntegralSlice(&in).String()
		var out []uint8
		err := NewUnsignedIntegralSlice(&out).Set(text)
		zzverif.Assert(err == nil && len(out) == 0, "C15 []uint8: the canonical text of the empty slice does not parse back to the empty slice")
	case 3:
		in := map[string]struct{}{"": {}, k: {}}
		text := NewStringSetFlag(&in).String()
		var out map[string]struct{}
		err := NewStringSetFlag(&out).Set(text)
		zzverif.Assert(err == nil, "C15 string set: the canonical text with the empty string as a member does not parse")
		if err == nil {
			_, ok := out[""]
			zzverif.Assert(ok && len(out) == 2, "C15 string set: the empty-string member was lost in the round trip")
		}
	}
	zzverif.Reached("c15-helper-empty-end")
}

// HarnessC15HelperComplex: the complex flag helpers print text that parses back to exactly the
// value (parts that need more than float32 precision or range included).
func HarnessC15HelperComplex() {
	parts := []float64{1.0 / 3, 16777217, 1e39, 5e-324, -0.5, math.Inf(1)}
	re, im := parts[zzverif.Choose("re", len(parts))], parts[zzverif.Choose("im", 3)]
	in := complex(re, im)
	text := NewComplex128Var(&in).String()
	var out complex128
	err := NewComplex128Var(&out).Set(text)
	zzverif.Assert(err == nil && out == in, "C15 complex128 flag helper: the text it prints does not parse back to exactly the value")
	small := []float32{0.1, 16777216, 3.4028235e+38, -1.5}
	in64 := complex(small[zzverif.Choose("re64", len(small))], small[zzverif.Choose("im64", 2)])
	text64 := NewComplex64Var(&in64).String()
	var out64 complex64
	err64 := NewComplex64Var(&out64).Set(text64)
	zzverif.Assert(err64 == nil && out64 == in64, "C15 complex64 flag helper: the text it prints does not parse back to exactly the value")
	zzverif.Reached("c15-helper-complex-end")
}

func HarnessC15HelperStrings1() { c15helperStrings(1) }
func HarnessC15HelperStrings2() { c15helperStrings(2) }
