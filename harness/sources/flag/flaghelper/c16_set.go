package flaghelper

// C16 (text half) for the flag helpers: Set on arbitrary text never panics (errors are fine),
// also when called again after a failure.

import (
	"github.com/vimeo/dials/zzverif"
)

func c16helperSet(n int) {
	text := zzverif.Bytes("text", n)
	again := "a:b,c"
	switch zzverif.Choose("helper", 7) {
	case 0:
		var v []string
		f := NewStringSliceFlag(&v)
		_ = f.Set(text)
		_ = f.Set(again)
		_ = f.String()
	case 1:
		var v map[string]struct{}
		f := NewStringSetFlag(&v)
		_ = f.Set(text)
		_ = f.Set(again)
	case 2:
		var v map[string]string
		f := NewMapStringStringFlag(&v)
		_ = f.Set(text)
		_ = f.Set(again)
	case 3:
		var v map[string][]string
		f := NewMapStringStringSliceFlag(&v)
		_ = f.Set(text)
		_ = f.Set(again)
	case 4:
		var v []int16
		f := NewSignedIntegralSlice(&v)
		_ = f.Set(text)
		_ = f.Set("1,2")
		_ = f.String()
	case 5:
		var v []uint8
		f := NewUnsignedIntegralSlice(&v)
		_ = f.Set(text)
		_ = f.Set("1,2")
		_ = f.String()
	case 6:
		// a map flag whose default is non-nil: the first Set replaces it
		v := map[string]string{"d": "e"}
		f := NewMapStringStringFlag(&v)
		_ = f.Set(text)
	}
	zzverif.Reached("c16-helper-set-end")
}

func HarnessC16HelperSetQuick()    { c16helperSet(2) }
func HarnessC16HelperSetThorough() { c16helperSet(3) }
