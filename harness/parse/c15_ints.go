package parse

// C15 part 1: integer text parsing never wraps, truncates or saturates; base prefixes, digit
// separators and surrounding whitespace are accepted for slice elements.

import (
	"github.com/vimeo/dials/zzverif"
)

// c15lit builds the literal text for v (style and padding are explored).
func c15lit(prefix string, v int64) (string, bool) {
	st := zzverif.Choose(prefix+"style", zzverif.NumStyles)
	if st == zzverif.StyleUnderscore {
		// make sure a separator actually appears
		zzverif.Assume(zzverif.Or(v >= 1000, v <= -1000))
	}
	s := zzverif.Literal(v, st)
	pad := zzverif.Choose(prefix+"pad", 4)
	switch pad {
	case 1:
		s = " " + s
	case 2:
		s = s + "\t"
	case 3:
		s = " " + s + " "
	}
	return s, pad != 0
}

func c15signedSlice[I int | int64 | int32 | int16 | int8](min, max int64) {
	v := zzverif.Int64("v")
	s, _ := c15lit("", v)
	out, err := SignedIntegralSlice[I](s)
	fits := zzverif.And(v >= min, v <= max)
	if err == nil {
		zzverif.Assert(fits, "C15 SignedIntegralSlice accepted a literal outside the element type's range (wrapped/truncated)")
		zzverif.Assert(len(out) == 1, "C15 SignedIntegralSlice returned the wrong number of elements")
		if len(out) == 1 {
			zzverif.Assert(int64(out[0]) == v, "C15 SignedIntegralSlice returned a value different from the literal")
		}
	} else {
		zzverif.Assert(zzverif.Not(fits), "C15 SignedIntegralSlice rejected an in-range literal (prefix, separator or padding not accepted)")
	}
	zzverif.Reached("c15-signed-end")
}

func c15unsignedSlice[I uint | uint64 | uint32 | uint16 | uint8 | uintptr](max uint64) {
	v := zzverif.Uint64("v")
	st := zzverif.Choose("style", zzverif.NumStyles)
	if st == zzverif.StyleUnderscore {
		zzverif.Assume(v >= 1000)
	}
	s := zzverif.LiteralU(v, st)
	if zzverif.Choose("pad", 2) == 1 {
		s = " " + s + " "
	}
	out, err := UnsignedIntegralSlice[I](s)
	fits := v <= max
	if err == nil {
		zzverif.Assert(fits, "C15 UnsignedIntegralSlice accepted a literal outside the element type's range (wrapped/truncated)")
		zzverif.Assert(len(out) == 1, "C15 UnsignedIntegralSlice returned the wrong number of elements")
		if len(out) == 1 {
			zzverif.Assert(uint64(out[0]) == v, "C15 UnsignedIntegralSlice returned a value different from the literal")
		}
	} else {
		zzverif.Assert(zzverif.Not(fits), "C15 UnsignedIntegralSlice rejected an in-range literal")
	}
	zzverif.Reached("c15-unsigned-end")
}

// HarnessC15IntSlices: all 11 instantiations, one element, every int64/uint64 literal value.
func HarnessC15IntSlices() {
	switch zzverif.Choose("type", 11) {
	case 0:
		c15signedSlice[int8](-1<<7, 1<<7-1)
	case 1:
		c15signedSlice[int16](-1<<15, 1<<15-1)
	case 2:
		c15signedSlice[int32](-1<<31, 1<<31-1)
	case 3:
		c15signedSlice[int64](-1<<63, 1<<63-1)
	case 4:
		c15signedSlice[int](-1<<63, 1<<63-1)
	case 5:
		c15unsignedSlice[uint8](1<<8 - 1)
	case 6:
		c15unsignedSlice[uint16](1<<16 - 1)
	case 7:
		c15unsignedSlice[uint32](1<<32 - 1)
	case 8:
		c15unsignedSlice[uint64](1<<64 - 1)
	case 9:
		c15unsignedSlice[uint](1<<64 - 1)
	case 10:
		c15unsignedSlice[uintptr](1<<64 - 1)
	}
}

// HarnessC15IntSliceWide: literals of magnitude 2^64 and negative literals for unsigned targets
// are rejected by every instantiation.
func HarnessC15IntSliceWide() {
	neg := zzverif.Choose("neg", 2) == 1
	s := zzverif.LiteralWide(neg)
	var err error
	switch zzverif.Choose("type", 4) {
	case 0:
		_, err = SignedIntegralSlice[int64](s)
	case 1:
		_, err = SignedIntegralSlice[int8](s)
	case 2:
		_, err = UnsignedIntegralSlice[uint64](s)
	case 3:
		_, err = UnsignedIntegralSlice[uint8](s)
	}
	zzverif.Assert(err != nil, "C15 a literal of magnitude 2^64 was accepted")
	// negative literal into an unsigned element
	v := zzverif.Int64("v")
	zzverif.Assume(v < 0)
	_, err2 := UnsignedIntegralSlice[uint32](zzverif.Literal(v, zzverif.StyleDecimal))
	zzverif.Assert(err2 != nil, "C15 a negative literal was accepted for an unsigned element")
	zzverif.Reached("c15-wide-end")
}

// HarnessC15IntSliceTwo: two elements with a separator and padding: order and values preserved.
func HarnessC15IntSliceTwo() {
	a := zzverif.Int64("a")
	b := zzverif.Int64("b")
	sa, _ := c15lit("a", a)
	sb, _ := c15lit("b", b)
	out, err := SignedIntegralSlice[int16](sa + "," + sb)
	fits := zzverif.And(zzverif.And(a >= -1<<15, a <= 1<<15-1), zzverif.And(b >= -1<<15, b <= 1<<15-1))
	if err == nil {
		zzverif.Assert(fits, "C15 SignedIntegralSlice[int16] accepted an out-of-range element")
		zzverif.Assert(len(out) == 2, "C15 SignedIntegralSlice returned the wrong number of elements")
		if len(out) == 2 {
			zzverif.Assert(zzverif.And(int64(out[0]) == a, int64(out[1]) == b), "C15 SignedIntegralSlice changed or reordered elements")
		}
	} else {
		zzverif.Assert(zzverif.Not(fits), "C15 SignedIntegralSlice rejected in-range elements")
	}
	zzverif.Reached("c15-two-end")
}
