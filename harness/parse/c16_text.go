package parse

// C16 (text half): no byte string makes a parser panic or hang.

import (
	"reflect"

	"github.com/vimeo/dials/zzverif"
)

func c16text(maxLen int) {
	n := zzverif.Choose("len", maxLen+1)
	s := zzverif.Bytes("s", n)
	switch zzverif.Choose("fn", 12) {
	case 0:
		_, _ = StringSlice(s)
	case 1:
		_, _ = StringSet(s)
	case 2:
		_, _ = StringStringSliceMap(s)
	case 3:
		_, _ = Map(s, reflect.TypeOf(map[string]int8{}))
	case 4:
		_, _ = Map(s, reflect.TypeOf(map[uint8]bool{}))
	case 5:
		_, _ = String(s, reflect.TypeOf(int16(0)))
	case 6:
		_, _ = String(s, reflect.TypeOf(uint32(0)))
	case 7:
		_, _ = String(s, reflect.TypeOf(true))
	case 8:
		_, _ = String(s, reflect.TypeOf([]int8{}))
	case 9:
		_, _ = String(s, reflect.TypeOf(""))
	case 10:
		_, _ = SignedIntegralSlice[int8](s)
	case 11:
		_, _ = UnsignedIntegralSlice[uint16](s)
	}
	zzverif.Reached("c16-text-end")
}

// HarnessC16ParseTextQuick: every byte string of length <= 2.
func HarnessC16ParseTextQuick() { c16text(2) }

// HarnessC16ParseTextThorough: every byte string of length <= 3.
func HarnessC16ParseTextThorough() { c16text(3) }

// HarnessC16MapKV: maps with non-string keys/values on "K:V" and "K:V,K:V" with arbitrary bytes
// for K and V (key or value failing to parse must be an error, not a panic).
func HarnessC16MapKV() {
	k := zzverif.Bytes("k", 1)
	v := zzverif.Bytes("v", 1)
	s := k + ":" + v
	if zzverif.Choose("two", 2) == 1 {
		s += "," + zzverif.Bytes("k2", 1) + ":" + v
	}
	switch zzverif.Choose("type", 4) {
	case 0:
		_, _ = Map(s, reflect.TypeOf(map[uint8]bool{}))
	case 1:
		_, _ = Map(s, reflect.TypeOf(map[int8]string{}))
	case 2:
		_, _ = Map(s, reflect.TypeOf(map[string]int8{}))
	case 3:
		_, _ = String(s, reflect.TypeOf(map[bool]uint16{}))
	}
	zzverif.Reached("c16-mapkv-end")
}
