package parse

import (
	"strconv"
	"math"
	"reflect"

	"github.com/vimeo/dials/zzverif"
)

type c15named8 int8
type c15namedU16 uint16

// HarnessC15ParseStringInts: parse.String for every integer kind (and named integer types):
// accepted iff in range, and then the exact value; no padding is accepted by parse.String.
func HarnessC15ParseStringInts() {
	type tc struct {
		t        reflect.Type
		signed   bool
		min, max int64
		umax     uint64
	}
	cases := []tc{
		{reflect.TypeOf(int8(0)), true, -1 << 7, 1<<7 - 1, 0},
		{reflect.TypeOf(int16(0)), true, -1 << 15, 1<<15 - 1, 0},
		{reflect.TypeOf(int32(0)), true, -1 << 31, 1<<31 - 1, 0},
		{reflect.TypeOf(int64(0)), true, -1 << 63, 1<<63 - 1, 0},
		{reflect.TypeOf(int(0)), true, -1 << 63, 1<<63 - 1, 0},
		{reflect.TypeOf(c15named8(0)), true, -1 << 7, 1<<7 - 1, 0},
		{reflect.TypeOf(uint8(0)), false, 0, 0, 1<<8 - 1},
		{reflect.TypeOf(uint16(0)), false, 0, 0, 1<<16 - 1},
		{reflect.TypeOf(uint32(0)), false, 0, 0, 1<<32 - 1},
		{reflect.TypeOf(uint64(0)), false, 0, 0, 1<<64 - 1},
		{reflect.TypeOf(uint(0)), false, 0, 0, 1<<64 - 1},
		{reflect.TypeOf(c15namedU16(0)), false, 0, 0, 1<<16 - 1},
	}
	c := cases[zzverif.Choose("type", len(cases))]
	st := zzverif.Choose("style", zzverif.NumStyles)
	if c.signed {
		v := zzverif.Int64("v")
		if st == zzverif.StyleUnderscore {
			zzverif.Assume(zzverif.Or(v >= 1000, v <= -1000))
		}
		val, err := String(zzverif.Literal(v, st), c.t)
		fits := zzverif.And(v >= c.min, v <= c.max)
		if err == nil {
			zzverif.Assert(fits, "C15 parse.String accepted an integer literal outside the type's range")
			zzverif.Assert(val.Kind() == reflect.Ptr && val.Elem().Kind() == c.t.Kind(), "C15 parse.String returned a value of the wrong kind")
			zzverif.Assert(val.Elem().Int() == v, "C15 parse.String returned a value different from the literal")
		} else {
			zzverif.Assert(zzverif.Not(fits), "C15 parse.String rejected an in-range integer literal")
		}
	} else {
		v := zzverif.Uint64("v")
		if st == zzverif.StyleUnderscore {
			zzverif.Assume(v >= 1000)
		}
		val, err := String(zzverif.LiteralU(v, st), c.t)
		fits := v <= c.umax
		if err == nil {
			zzverif.Assert(fits, "C15 parse.String accepted an unsigned literal outside the type's range")
			zzverif.Assert(val.Kind() == reflect.Ptr && val.Elem().Kind() == c.t.Kind(), "C15 parse.String returned a value of the wrong kind")
			zzverif.Assert(val.Elem().Uint() == v, "C15 parse.String returned a value different from the literal")
		} else {
			zzverif.Assert(zzverif.Not(fits), "C15 parse.String rejected an in-range unsigned literal")
		}
	}
	zzverif.Reached("c15-parsestring-end")
}

// HarnessC15FloatBoundaries: literals just inside and just outside the float32/float64 ranges for
// float and complex targets (concrete probes: floating point is not solver-quantified here).
func HarnessC15FloatBoundaries() {
	type probe struct {
		lit        string
		fits32     bool
		fits64     bool
	}
	probes := []probe{
		{"3.4028234e+38", true, true}, {"3.5e+38", false, true}, {"-3.5e+38", false, true}, {"1e+40", false, true},
		{"1.7976931348623157e+308", false, true}, {"1e+309", false, false}, {"-1e+400", false, false}, {"1.5", true, true},
	}
	p := probes[zzverif.Choose("probe", len(probes))]
	switch zzverif.Choose("type", 4) {
	case 0:
		_, err := String(p.lit, reflect.TypeOf(float32(0)))
		zzverif.Assert((err == nil) == p.fits32, "C15 float32: a literal outside the range was accepted (saturated to Inf) or one inside rejected: "+p.lit)
	case 1:
		_, err := String(p.lit, reflect.TypeOf(float64(0)))
		zzverif.Assert((err == nil) == p.fits64, "C15 float64: a literal outside the range was accepted or one inside rejected: "+p.lit)
	case 2:
		_, err := String("("+p.lit+"+2i)", reflect.TypeOf(complex64(0)))
		zzverif.Assert((err == nil) == p.fits32, "C15 complex64: a part outside the float32 range was accepted (saturated to Inf) or one inside rejected: "+p.lit)
	case 3:
		_, err := String("(1+"+p.lit+"i)", reflect.TypeOf(complex128(0)))
		zzverif.Assert((err == nil) == p.fits64, "C15 complex128: a part outside the float64 range was accepted or one inside rejected: "+p.lit)
	}
	zzverif.Reached("c15-float-end")
}

// HarnessC15FloatValues: canonical text of float and complex values (what strconv prints) parses
// back to exactly that value: infinities, extremes, denormals, values that are not exactly
// representable in the narrower width.
func HarnessC15FloatValues() {
	f64 := []float64{math.Inf(1), math.Inf(-1), math.MaxFloat64, -math.MaxFloat64, math.SmallestNonzeroFloat64, 0.1, 1e300, -0.0, 123456789.125}
	f32 := []float32{float32(math.Inf(1)), float32(math.Inf(-1)), math.MaxFloat32, -math.MaxFloat32, math.SmallestNonzeroFloat32, 0.1, 16777217, 1.5}
	switch zzverif.Choose("type", 4) {
	case 0:
		v := f64[zzverif.Choose("v", len(f64))]
		got, err := String(strconv.FormatFloat(v, 'g', -1, 64), reflect.TypeOf(float64(0)))
		zzverif.Assert(err == nil, "C15 float64: the canonical text of a value was rejected")
		if err == nil {
			zzverif.Assert(reflect.Indirect(got).Float() == v, "C15 float64: parsing the canonical text did not return exactly the value")
		}
	case 1:
		v := f32[zzverif.Choose("v", len(f32))]
		got, err := String(strconv.FormatFloat(float64(v), 'g', -1, 32), reflect.TypeOf(float32(0)))
		zzverif.Assert(err == nil, "C15 float32: the canonical text of a value (infinities included) was rejected")
		if err == nil {
			zzverif.Assert(float32(reflect.Indirect(got).Float()) == v, "C15 float32: parsing the canonical text did not return exactly the value")
		}
	case 2:
		re, im := f64[zzverif.Choose("re", len(f64))], f64[zzverif.Choose("im", 4)]
		v := complex(re, im)
		got, err := String(strconv.FormatComplex(v, 'g', -1, 128), reflect.TypeOf(complex128(0)))
		zzverif.Assert(err == nil, "C15 complex128: the canonical text of a value was rejected")
		if err == nil {
			zzverif.Assert(reflect.Indirect(got).Complex() == v, "C15 complex128: parsing the canonical text did not return exactly the value (parts rounded to a narrower width?)")
		}
	case 3:
		re, im := f32[zzverif.Choose("re", len(f32))], f32[zzverif.Choose("im", 4)]
		v := complex(re, im)
		got, err := String(strconv.FormatComplex(complex128(v), 'g', -1, 64), reflect.TypeOf(complex64(0)))
		zzverif.Assert(err == nil, "C15 complex64: the canonical text of a value was rejected")
		if err == nil {
			zzverif.Assert(complex64(reflect.Indirect(got).Complex()) == v, "C15 complex64: parsing the canonical text did not return exactly the value")
		}
	}
	zzverif.Reached("c15-floatvalues-end")
}

// HarnessC15MapInts: integer keys and values of generic maps accept the same literal forms as
// scalar integers (base prefixes, digit separators). The map text goes through text/scanner byte
// by byte, so the literals are concrete probes here (the scalar parsers are covered for every
// value by HarnessC15ParseStringInts).
func HarnessC15MapInts() {
	probes := []struct {
		lit string
		v   int64
	}{{"1_000", 1000}, {"65_535", 65535}, {"0x1F", 31}, {"0b101", 5}, {"0o17", 15}, {"-42", -42}, {"-1_0", -10}, {"7", 7}}
	p := probes[zzverif.Choose("probe", len(probes))]
	if zzverif.Choose("where", 2) == 0 {
		got, err := Map("k:"+p.lit, reflect.TypeOf(map[string]int64(nil)))
		zzverif.Assert(err == nil, "C15 map[string]int64: an integer value in a legal literal form was rejected: "+p.lit)
		if err == nil {
			e := got.MapIndex(reflect.ValueOf("k"))
			zzverif.Assert(got.Len() == 1 && e.IsValid() && e.Int() == p.v, "C15 map[string]int64: the parsed value is not the literal's value (digit separators or base prefix mishandled): "+p.lit)
		}
	} else {
		got, err := Map(p.lit+":7", reflect.TypeOf(map[int64]int8(nil)))
		zzverif.Assert(err == nil, "C15 map[int64]int8: an integer key in a legal literal form was rejected: "+p.lit)
		if err == nil {
			zzverif.Assert(got.Len() == 1, "C15 map[int64]int8: wrong number of entries")
			it := got.MapRange()
			if it.Next() {
				zzverif.Assert(it.Key().Int() == p.v && it.Value().Int() == 7, "C15 map[int64]int8: the parsed key is not the literal's value: "+p.lit)
			}
		}
	}
	zzverif.Reached("c15-mapints-end")
}
