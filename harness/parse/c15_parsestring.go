package parse

import (
	"reflect"

	"github.com/vimeo/dials/zzverif"
)

type c15named8 int8
type c15namedU16 uint16

// HarnessC15ParseStringInts: parse.String for every integer kind (and named integer types):
// accepted iff in range, and then the exact value; no padding is accepted by parse.String.
func HarnessC15ParseStringInts() {
	type tc struct {
		t        reflect.Type
		signed   bool
		min, max int64
		umax     uint64
	}
	cases := []tc{
		{reflect.TypeOf(int8(0)), true, -1 << 7, 1<<7 - 1, 0},
		{reflect.TypeOf(int16(0)), true, -1 << 15, 1<<15 - 1, 0},
		{reflect.TypeOf(int32(0)), true, -1 << 31, 1<<31 - 1, 0},
		{reflect.TypeOf(int64(0)), true, -1 << 63, 1<<63 - 1, 0},
		{reflect.TypeOf(int(0)), true, -1 << 63, 1<<63 - 1, 0},
		{reflect.TypeOf(c15named8(0)), true, -1 << 7, 1<<7 - 1, 0},
		{reflect.TypeOf(uint8(0)), false, 0, 0, 1<<8 - 1},
		{reflect.TypeOf(uint16(0)), false, 0, 0, 1<<16 - 1},
		{reflect.TypeOf(uint32(0)), false, 0, 0, 1<<32 - 1},
		{reflect.TypeOf(uint64(0)), false, 0, 0, 1<<64 - 1},
		{reflect.TypeOf(uint(0)), false, 0, 0, 1<<64 - 1},
		{reflect.TypeOf(c15namedU16(0)), false, 0, 0, 1<<16 - 1},
	}
	c := cases[zzverif.Choose("type", len(cases))]
	st := zzverif.Choose("style", zzverif.NumStyles)
	if c.signed {
		v := zzverif.Int64("v")
		if st == zzverif.StyleUnderscore {
			zzverif.Assume(zzverif.Or(v >= 1000, v <= -1000))
		}
		val, err := String(zzverif.Literal(v, st), c.t)
		fits := zzverif.And(v >= c.min, v <= c.max)
		if err == nil {
			zzverif.Assert(fits, "C15 parse.String accepted an integer literal outside the type's range")
			zzverif.Assert(val.Kind() == reflect.Ptr && val.Elem().Kind() == c.t.Kind(), "C15 parse.String returned a value of the wrong kind")
			zzverif.Assert(val.Elem().Int() == v, "C15 parse.String returned a value different from the literal")
		} else {
			zzverif.Assert(zzverif.Not(fits), "C15 parse.String rejected an in-range integer literal")
		}
	} else {
		v := zzverif.Uint64("v")
		if st == zzverif.StyleUnderscore {
			zzverif.Assume(v >= 1000)
		}
		val, err := String(zzverif.LiteralU(v, st), c.t)
		fits := v <= c.umax
		if err == nil {
			zzverif.Assert(fits, "C15 parse.String accepted an unsigned literal outside the type's range")
			zzverif.Assert(val.Kind() == reflect.Ptr && val.Elem().Kind() == c.t.Kind(), "C15 parse.String returned a value of the wrong kind")
			zzverif.Assert(val.Elem().Uint() == v, "C15 parse.String returned a value different from the literal")
		} else {
			zzverif.Assert(zzverif.Not(fits), "C15 parse.String rejected an in-range unsigned literal")
		}
	}
	zzverif.Reached("c15-parsestring-end")
}
