package dials

// Generic machinery for C01 (layer precedence) and C02 (isolation): builds layers for an arbitrary
// config struct type through the pointerified *Type (by field name, like decoders do), applies
// the same layers to an independent reference model, and compares the stacked result leaf by leaf.

import (
	"context"
	"encoding"
	"reflect"
	"strconv"
	"time"

	"github.com/vimeo/dials/zzverif"
)

var c01textUnmarshaler = reflect.TypeOf((*encoding.TextUnmarshaler)(nil)).Elem()

func c01skipped(f reflect.StructField) bool {
	if f.PkgPath != "" { // unexported
		return true
	}
	if v, ok := f.Tag.Lookup("dials"); ok && v == "-" {
		return true
	}
	switch f.Type.Kind() {
	case reflect.Chan, reflect.Func, reflect.Interface:
		return true
	}
	return false
}

func c01isTU(t reflect.Type) bool {
	return t.Kind() == reflect.Struct && (t.Implements(c01textUnmarshaler) || reflect.PtrTo(t).Implements(c01textUnmarshaler))
}

// c01scalar returns a fresh symbolic value of scalar type t.
func c01scalar(name string, t reflect.Type) reflect.Value {
	out := reflect.New(t).Elem()
	switch t.Kind() {
	case reflect.Bool:
		out.SetBool(zzverif.Bool(name))
	case reflect.Int:
		out.SetInt(int64(zzverif.Int(name)))
	case reflect.Int8:
		out.SetInt(int64(zzverif.Int8(name)))
	case reflect.Int16:
		out.SetInt(int64(zzverif.Int16(name)))
	case reflect.Int32:
		out.SetInt(int64(zzverif.Int32(name)))
	case reflect.Int64:
		out.SetInt(zzverif.Int64(name))
	case reflect.Uint:
		out.SetUint(zzverif.Uint64(name))
	case reflect.Uint8:
		out.SetUint(uint64(zzverif.Byte(name)))
	case reflect.Uint16:
		out.SetUint(uint64(zzverif.Uint16(name)))
	case reflect.Uint32:
		out.SetUint(uint64(zzverif.Uint32(name)))
	case reflect.Uint64, reflect.Uintptr:
		out.SetUint(zzverif.Uint64(name))
	case reflect.Float32, reflect.Float64:
		out.SetFloat([]float64{0, 1.5, -2.25}[zzverif.Choose(name, 3)])
	case reflect.Complex64, reflect.Complex128:
		out.SetComplex([]complex128{0, complex(1, 2)}[zzverif.Choose(name, 2)])
	case reflect.String:
		out.SetString(zzverif.Bytes(name, 1))
	default:
		panic("c01scalar: unsupported kind " + t.Kind().String())
	}
	return out
}

func c01isScalar(t reflect.Type) bool {
	switch t.Kind() {
	case reflect.Bool, reflect.Int, reflect.Int8, reflect.Int16, reflect.Int32, reflect.Int64,
		reflect.Uint, reflect.Uint8, reflect.Uint16, reflect.Uint32, reflect.Uint64, reflect.Uintptr,
		reflect.Float32, reflect.Float64, reflect.Complex64, reflect.Complex128, reflect.String:
		return true
	}
	return false
}

// c01whole builds a fresh symbolic value of any supported leaf type (used for leaves that are
// replaced as a whole: slices, maps, arrays, text-unmarshalable structs, user pointers).
func c01whole(name string, t reflect.Type, depth int) reflect.Value {
	switch t.Kind() {
	case reflect.Slice:
		n := zzverif.Choose(name+"_len", 3) // 0 (empty, non-nil), 1, 2
		s := reflect.MakeSlice(t, n, n+1)
		for i := 0; i < n; i++ {
			s.Index(i).Set(c01whole(name+"_"+strconv.Itoa(i), t.Elem(), depth+1))
		}
		return s
	case reflect.Map:
		n := zzverif.Choose(name+"_len", 2) // empty or one entry
		m := reflect.MakeMap(t)
		for i := 0; i < n; i++ {
			k := reflect.New(t.Key()).Elem()
			if t.Key().Kind() == reflect.String {
				k.SetString("k" + strconv.Itoa(i))
			} else {
				k.Set(c01whole(name+"_k"+strconv.Itoa(i), t.Key(), depth+1))
				if k.Kind() == reflect.Struct && k.NumField() > 0 && k.Field(0).Kind() == reflect.String {
					k.Field(0).SetString("key" + strconv.Itoa(i)) // concrete, distinct key identity
				}
			}
			m.SetMapIndex(k, c01whole(name+"_v"+strconv.Itoa(i), t.Elem(), depth+1))
		}
		return m
	case reflect.Array:
		a := reflect.New(t).Elem()
		for i := 0; i < t.Len(); i++ {
			a.Index(i).Set(c01whole(name+"_"+strconv.Itoa(i), t.Elem(), depth+1))
		}
		return a
	case reflect.Ptr:
		p := reflect.New(t.Elem())
		p.Elem().Set(c01whole(name+"_p", t.Elem(), depth+1))
		return p
	case reflect.Struct:
		s := reflect.New(t).Elem()
		for i := 0; i < t.NumField(); i++ {
			f := t.Field(i)
			if f.PkgPath != "" || !(c01isScalar(f.Type) || f.Type.Kind() == reflect.Slice || (f.Type.Kind() == reflect.Ptr && c01isScalar(f.Type.Elem()))) {
				continue
			}
			s.Field(i).Set(c01whole(name+"_"+f.Name, f.Type, depth+1))
		}
		return s
	}
	return c01scalar(name, t)
}

// c01copy returns an independent deep copy of a value built by c01whole (same symbolic leaves).
func c01copy(v reflect.Value) reflect.Value {
	t := v.Type()
	switch t.Kind() {
	case reflect.Slice:
		if v.IsNil() {
			return reflect.Zero(t)
		}
		s := reflect.MakeSlice(t, v.Len(), v.Cap())
		for i := 0; i < v.Len(); i++ {
			s.Index(i).Set(c01copy(v.Index(i)))
		}
		return s
	case reflect.Map:
		if v.IsNil() {
			return reflect.Zero(t)
		}
		m := reflect.MakeMap(t)
		it := v.MapRange()
		for it.Next() {
			m.SetMapIndex(c01copy(it.Key()), c01copy(it.Value()))
		}
		return m
	case reflect.Array:
		a := reflect.New(t).Elem()
		for i := 0; i < t.Len(); i++ {
			a.Index(i).Set(c01copy(v.Index(i)))
		}
		return a
	case reflect.Ptr:
		if v.IsNil() {
			return reflect.Zero(t)
		}
		p := reflect.New(t.Elem())
		p.Elem().Set(c01copy(v.Elem()))
		return p
	case reflect.Struct:
		s := reflect.New(t).Elem()
		s.Set(v)
		for i := 0; i < t.NumField(); i++ {
			if t.Field(i).PkgPath != "" {
				continue
			}
			switch t.Field(i).Type.Kind() {
			case reflect.Slice, reflect.Map, reflect.Array, reflect.Ptr, reflect.Struct:
				s.Field(i).Set(c01copy(v.Field(i)))
			}
		}
		return s
	}
	return v
}

// c01fill sets a symbolic subset of the leaves of pv (a value of the pointerified type for the
// original type ot) and applies the same assignments to the reference value ov (type ot).
func c01fill(prefix string, ot reflect.Type, pv, ov reflect.Value) {
	for i := 0; i < ot.NumField(); i++ {
		f := ot.Field(i)
		if c01skipped(f) {
			continue
		}
		name := prefix + f.Name
		if f.Type.Kind() == reflect.Ptr && (f.Type.Elem().Kind() == reflect.Chan || f.Type.Elem().Kind() == reflect.Func) {
			// part of the pointerified type, but no layer ever sets it
			continue
		}
		pf := pv.FieldByName(f.Name)
		if !pf.IsValid() {
			zzverif.Fail("C01 the pointerified type lacks field " + name)
			continue
		}
		of := ov.Field(i)
		ft := f.Type
		switch {
		case ft.Kind() == reflect.Struct && !c01isTU(ft):
			// nested struct: pointer to the pointerified struct; merged field by field
			if zzverif.Bool(name + "_set") {
				pf.Set(reflect.New(pf.Type().Elem()))
				c01fill(name+".", ft, pf.Elem(), of)
			}
		case ft.Kind() == reflect.Ptr && ft.Elem().Kind() == reflect.Struct && !c01isTU(ft.Elem()):
			if zzverif.Bool(name + "_set") {
				pf.Set(reflect.New(pf.Type().Elem()))
				if of.IsNil() {
					of.Set(reflect.New(ft.Elem()))
				}
				c01fill(name+".", ft.Elem(), pf.Elem(), of.Elem())
			}
		case ft.Kind() == reflect.Slice || ft.Kind() == reflect.Map:
			// nil-able as they are: replaced as a whole when non-nil (also when empty)
			if zzverif.Bool(name + "_set") {
				v := c01whole(name, ft, 0)
				pf.Set(v)
				of.Set(c01copy(v))
			}
		case ft.Kind() == reflect.Ptr:
			// user-declared pointer to a non-struct (or to a text-unmarshalable struct): kept as is
			if zzverif.Bool(name + "_set") {
				v := c01whole(name, ft, 0)
				if pf.Type() == ft {
					pf.Set(v)
				} else {
					// pointer to text-unmarshalable struct stays a single pointer too
					pf.Set(v)
				}
				of.Set(c01copy(v))
			}
		default:
			// scalars, durations, arrays, text-unmarshalable structs: pointer to the value
			if zzverif.Bool(name + "_set") {
				v := c01whole(name, ft, 0)
				p := reflect.New(ft)
				p.Elem().Set(v)
				pf.Set(p)
				of.Set(c01copy(v))
			}
		}
	}
}

// c01eq compares two values of the same type leaf by leaf without forking; unexported fields are
// compared too (they must keep their default).
func c01eq(a, b reflect.Value) bool {
	t := a.Type()
	switch t.Kind() {
	case reflect.Bool:
		return a.Bool() == b.Bool()
	case reflect.Int, reflect.Int8, reflect.Int16, reflect.Int32, reflect.Int64:
		return a.Int() == b.Int()
	case reflect.Uint, reflect.Uint8, reflect.Uint16, reflect.Uint32, reflect.Uint64, reflect.Uintptr:
		return a.Uint() == b.Uint()
	case reflect.Float32, reflect.Float64:
		return a.Float() == b.Float()
	case reflect.Complex64, reflect.Complex128:
		return a.Complex() == b.Complex()
	case reflect.String:
		return zzverif.StrEq(a.String(), b.String())
	case reflect.Ptr:
		if a.IsNil() || b.IsNil() {
			return a.IsNil() == b.IsNil()
		}
		return c01eq(a.Elem(), b.Elem())
	case reflect.Struct:
		eq := true
		for i := 0; i < t.NumField(); i++ {
			eq = zzverif.And(eq, c01eq(a.Field(i), b.Field(i)))
		}
		return eq
	case reflect.Slice:
		if a.IsNil() != b.IsNil() || a.Len() != b.Len() {
			return false
		}
		eq := true
		for i := 0; i < a.Len(); i++ {
			eq = zzverif.And(eq, c01eq(a.Index(i), b.Index(i)))
		}
		return eq
	case reflect.Array:
		eq := true
		for i := 0; i < a.Len(); i++ {
			eq = zzverif.And(eq, c01eq(a.Index(i), b.Index(i)))
		}
		return eq
	case reflect.Map:
		if a.IsNil() != b.IsNil() || a.Len() != b.Len() {
			return false
		}
		eq := true
		it := a.MapRange()
		for it.Next() {
			if t.Key().Kind() == reflect.Struct {
				// keys holding pointers: match on the concrete first field, then compare deeply
				found := false
				jt := b.MapRange()
				for jt.Next() {
					if jt.Key().Field(0).String() == it.Key().Field(0).String() {
						found = true
						eq = zzverif.And(eq, zzverif.And(c01eq(it.Key(), jt.Key()), c01eq(it.Value(), jt.Value())))
					}
				}
				if !found {
					return false
				}
				continue
			}
			bv := b.MapIndex(it.Key())
			if !bv.IsValid() {
				return false
			}
			eq = zzverif.And(eq, c01eq(it.Value(), bv))
		}
		return eq
	case reflect.Chan, reflect.Func:
		return a.Pointer() == b.Pointer()
	case reflect.Interface:
		if a.IsNil() || b.IsNil() {
			return a.IsNil() == b.IsNil()
		}
		if a.Elem().Type() != b.Elem().Type() {
			return false
		}
		return c01eq(a.Elem(), b.Elem())
	}
	return false
}

// c01refs collects the identities of all mutable memory reachable through exported fields.
func c01refs(v reflect.Value, out map[uintptr]bool) {
	switch v.Kind() {
	case reflect.Ptr:
		if !v.IsNil() {
			out[v.Pointer()] = true
			c01refs(v.Elem(), out)
		}
	case reflect.Map:
		if !v.IsNil() {
			out[v.Pointer()] = true
			it := v.MapRange()
			for it.Next() {
				c01refs(it.Key(), out)
				c01refs(it.Value(), out)
			}
		}
	case reflect.Slice:
		if !v.IsNil() && v.Cap() > 0 {
			out[v.Slice(0, v.Cap()).Index(0).Addr().Pointer()] = true
			// the spare capacity is reachable too (re-slicing)
			full := v.Slice(0, v.Cap())
			for i := 0; i < full.Len(); i++ {
				c01refs(full.Index(i), out)
			}
		}
	case reflect.Array:
		for i := 0; i < v.Len(); i++ {
			c01refs(v.Index(i), out)
		}
	case reflect.Struct:
		if c01isTU(v.Type()) && v.Type() == reflect.TypeOf(time.Time{}) {
			return
		}
		for i := 0; i < v.NumField(); i++ {
			if v.Type().Field(i).PkgPath != "" {
				continue
			}
			c01refs(v.Field(i), out)
		}
	case reflect.Interface:
		if !v.IsNil() {
			c01refs(v.Elem(), out)
		}
	}
}

func c01disjoint(a, b map[uintptr]bool) bool {
	for k := range a {
		if b[k] {
			return false
		}
	}
	return true
}

// c01static is a source returning a prepared pointerified value.
type c01static struct {
	build func(t *Type) reflect.Value
	val   reflect.Value
}

func (s *c01static) Value(ctx context.Context, t *Type) (reflect.Value, error) {
	s.val = s.build(t)
	return s.val, nil
}

// c01run stacks nlayers symbolic layers over the defaults built by mkdef (called twice: once for
// Config, once for the reference model) and checks C01 + the single-stack part of C02.
func c01run[T any](tname string, mkdef func() *T, nlayers int) {
	def := mkdef()
	ref := mkdef()  // reference model starts as an independent copy of the defaults
	def0 := mkdef() // to detect modification of the caller's defaults
	ot := reflect.TypeOf(def).Elem()
	refv := reflect.ValueOf(ref).Elem()
	srcs := make([]Source, nlayers)
	statics := make([]*c01static, nlayers)
	for l := 0; l < nlayers; l++ {
		l := l
		statics[l] = &c01static{build: func(t *Type) reflect.Value {
			pv := reflect.New(t.Type()).Elem()
			c01fill("L"+strconv.Itoa(l)+".", ot, pv, refv)
			return pv
		}}
		srcs[l] = statics[l]
	}
	d, err := Config(context.Background(), def, srcs...)
	zzverif.Assert(err == nil, "C01 "+tname+": Config failed for a supported config type")
	if err != nil {
		return
	}
	got := reflect.ValueOf(d.View()).Elem()
	zzverif.Assert(c01eq(got, refv), "C01 "+tname+": a leaf of the stacked config is not the value of the last source that set it (or the default)")
	zzverif.Assert(c01eq(reflect.ValueOf(def).Elem(), reflect.ValueOf(def0).Elem()), "C02 "+tname+": Config modified the caller's defaults")
	// isolation: the view shares no mutable memory with the defaults or with any source value
	vr := map[uintptr]bool{}
	c01refs(got, vr)
	dr := map[uintptr]bool{}
	c01refs(reflect.ValueOf(def).Elem(), dr)
	zzverif.Assert(c01disjoint(vr, dr), "C02 "+tname+": the view shares memory with the caller's defaults")
	for _, s := range statics {
		sr := map[uintptr]bool{}
		c01refs(s.val, sr)
		zzverif.Assert(c01disjoint(vr, sr), "C02 "+tname+": the view shares memory with a source's value")
	}
	zzverif.Reached("c01-end")
}
