package transform

// C10: translate, fill any subset of the translated fields, reverse: every original leaf holds what
// was written to its translated counterpart, everything else is unset, an empty translated value
// reverses to an entirely unset original.

import (
	"reflect"
	"time"

	"github.com/vimeo/dials/common"
	"github.com/vimeo/dials/ptrify"
	"github.com/vimeo/dials/tagformat/caseconversion"
	"github.com/vimeo/dials/zzverif"
)

type c10inner struct {
	Host string
	Set  map[string]struct{}
	Deep struct {
		Key string
		N   int8
	}
}

type C10Emb struct {
	E1 int8
	E2 string
}

type c10tu struct{ v uint8 }

func (t *c10tu) UnmarshalText(b []byte) error {
	if len(b) == 0 {
		return nil
	}
	t.v = b[0]
	return nil
}

type c10cfg struct {
	Port  int16
	Tags  map[string]struct{}
	In    c10inner
	PIn   *c10inner
	Names []string
	Wait  time.Duration
	C10Emb
	TU   c10tu
	Last uint8
}

// c10setField sets a translated field to a pointer to v (or v itself for nil-able kinds).
func c10setPtr(f reflect.Value, v interface{}) {
	rv := reflect.ValueOf(v)
	if f.Kind() == reflect.Ptr {
		p := reflect.New(f.Type().Elem())
		p.Elem().Set(rv.Convert(f.Type().Elem()))
		f.Set(p)
		return
	}
	f.Set(rv.Convert(f.Type()))
}

func c10origType() reflect.Type {
	return ptrify.Pointerify(reflect.TypeOf(c10cfg{}), reflect.Value{})
}

// HarnessC10SetSlice: set<->slice mangler at every depth: nil slice -> unset, empty slice -> empty
// set, elements -> set of those elements.
func HarnessC10SetSlice() {
	t := c10origType()
	tfm := NewTransformer(t, &SetSliceMangler{})
	val, err := tfm.Translate()
	zzverif.Assert(err == nil, "C10 set-slice: Translate failed")
	if err != nil {
		return
	}
	mode := func(name string) int { return zzverif.Choose(name, 3) } // nil, empty, two elements (one duplicate-free)
	slice := func(m int) []string {
		switch m {
		case 1:
			return []string{}
		case 2:
			return []string{"a", "b"}
		}
		return nil
	}
	mTop, mIn, mPIn := mode("top"), mode("in"), mode("pin")
	setPort := zzverif.Bool("port")
	port := zzverif.Int16("portv")
	val.FieldByName("Tags").Set(reflect.ValueOf(slice(mTop)))
	if setPort {
		c10setPtr(val.FieldByName("Port"), port)
	}
	if mIn != 0 {
		inf := val.FieldByName("In")
		inf.Set(reflect.New(inf.Type().Elem()))
		inf.Elem().FieldByName("Set").Set(reflect.ValueOf(slice(mIn)))
	}
	if mPIn != 0 {
		inf := val.FieldByName("PIn")
		inf.Set(reflect.New(inf.Type().Elem()))
		inf.Elem().FieldByName("Set").Set(reflect.ValueOf(slice(mPIn)))
	}
	out, rerr := tfm.ReverseTranslate(val)
	zzverif.Assert(rerr == nil, "C10 set-slice: ReverseTranslate failed")
	if rerr != nil {
		return
	}
	zzverif.Assert(out.Type() == t, "C10 set-slice: the reversed value does not have exactly the original type")
	if out.Type() != t {
		return
	}
	chkSet := func(m int, v reflect.Value, what string) {
		switch m {
		case 0:
			zzverif.Assert(v.IsNil(), "C10 set-slice "+what+": an unset slice did not reverse to an unset set")
		case 1:
			zzverif.Assert(!v.IsNil() && v.Len() == 0, "C10 set-slice "+what+": an explicitly empty slice did not reverse to an empty (non-nil) set")
		case 2:
			zzverif.Assert(!v.IsNil() && v.Len() == 2 && v.MapIndex(reflect.ValueOf("a")).IsValid() && v.MapIndex(reflect.ValueOf("b")).IsValid(),
				"C10 set-slice "+what+": the elements written to the slice are not the members of the set")
		}
	}
	chkSet(mTop, out.FieldByName("Tags"), "top-level")
	zzverif.Assert(out.FieldByName("In").IsNil() == (mIn == 0), "C10 set-slice: nested struct set/unset wrongly")
	if mIn != 0 && !out.FieldByName("In").IsNil() {
		chkSet(mIn, out.FieldByName("In").Elem().FieldByName("Set"), "nested")
	}
	zzverif.Assert(out.FieldByName("PIn").IsNil() == (mPIn == 0), "C10 set-slice: pointer-nested struct set/unset wrongly")
	if mPIn != 0 && !out.FieldByName("PIn").IsNil() {
		chkSet(mPIn, out.FieldByName("PIn").Elem().FieldByName("Set"), "pointer-nested")
	}
	zzverif.Assert(out.FieldByName("Port").IsNil() == !setPort, "C10 set-slice: an unrelated leaf was set/unset wrongly")
	if setPort && !out.FieldByName("Port").IsNil() {
		zzverif.Assert(out.FieldByName("Port").Elem().Int() == int64(port), "C10 set-slice: an unrelated leaf changed value")
	}
	for _, n := range []string{"Names", "Wait", "C10Emb", "TU", "Last"} {
		zzverif.Assert(out.FieldByName(n).IsNil(), "C10 set-slice: leaf "+n+" is set although nothing was written to it")
	}
	zzverif.Reached("c10-setslice-end")
}

// HarnessC10Flatten: flatten (as env/flag use it): every subset of the flattened leaves.
func HarnessC10Flatten() {
	t := c10origType()
	fm := NewFlattenMangler(common.DialsTagName, caseconversion.EncodeUpperCamelCase, caseconversion.EncodeUpperCamelCase)
	tfm := NewTransformer(t, fm)
	val, err := tfm.Translate()
	zzverif.Assert(err == nil, "C10 flatten: Translate failed")
	if err != nil {
		return
	}
	// flattened leaves by name (the names are the concatenated path)
	names := []string{"Port", "InHost", "InDeepKey", "InDeepN", "PInHost", "PInDeepN", "E1", "E2", "Last"}
	set := map[string]bool{}
	for _, n := range names {
		f := val.FieldByName(n)
		if !f.IsValid() {
			zzverif.Fail("C10 flatten: the translated type lacks the flattened field " + n)
			return
		}
		set[n] = zzverif.Bool("set_" + n)
	}
	pv := zzverif.Int16("portv")
	nv := zzverif.Int8("nv")
	if set["Port"] {
		c10setPtr(val.FieldByName("Port"), pv)
	}
	if set["InHost"] {
		c10setPtr(val.FieldByName("InHost"), "h")
	}
	if set["InDeepKey"] {
		c10setPtr(val.FieldByName("InDeepKey"), "k")
	}
	if set["InDeepN"] {
		c10setPtr(val.FieldByName("InDeepN"), nv)
	}
	if set["PInHost"] {
		c10setPtr(val.FieldByName("PInHost"), "ph")
	}
	if set["PInDeepN"] {
		c10setPtr(val.FieldByName("PInDeepN"), int8(9))
	}
	if set["E1"] {
		c10setPtr(val.FieldByName("E1"), int8(5))
	}
	if set["E2"] {
		c10setPtr(val.FieldByName("E2"), "e")
	}
	if set["Last"] {
		c10setPtr(val.FieldByName("Last"), uint8(8))
	}
	out, rerr := tfm.ReverseTranslate(val)
	zzverif.Assert(rerr == nil, "C10 flatten: ReverseTranslate failed")
	if rerr != nil {
		return
	}
	zzverif.Assert(out.Type() == t, "C10 flatten: the reversed value does not have exactly the original type")
	if out.Type() != t {
		return
	}
	f := func(n string) reflect.Value { return out.FieldByName(n) }
	leaf := func(present bool, v reflect.Value, what string) bool {
		zzverif.Assert(v.IsNil() == !present, "C10 flatten "+what+": leaf set although nothing was written to its translated field, or lost although something was")
		return present && !v.IsNil()
	}
	if leaf(set["Port"], f("Port"), "Port") {
		zzverif.Assert(f("Port").Elem().Int() == int64(pv), "C10 flatten Port: wrong value")
	}
	inSet := set["InHost"] || set["InDeepKey"] || set["InDeepN"]
	zzverif.Assert(f("In").IsNil() == !inSet, "C10 flatten In: parent set although no child is, or unset although a child was written")
	if inSet && !f("In").IsNil() {
		in := f("In").Elem()
		if leaf(set["InHost"], in.FieldByName("Host"), "In.Host") {
			zzverif.Assert(in.FieldByName("Host").Elem().String() == "h", "C10 flatten In.Host: wrong value")
		}
		deepSet := set["InDeepKey"] || set["InDeepN"]
		zzverif.Assert(in.FieldByName("Deep").IsNil() == !deepSet, "C10 flatten In.Deep: parent set/unset wrongly")
		if deepSet && !in.FieldByName("Deep").IsNil() {
			dp := in.FieldByName("Deep").Elem()
			if leaf(set["InDeepN"], dp.FieldByName("N"), "In.Deep.N") {
				zzverif.Assert(dp.FieldByName("N").Elem().Int() == int64(nv), "C10 flatten In.Deep.N: wrong value")
			}
			leaf(set["InDeepKey"], dp.FieldByName("Key"), "In.Deep.Key")
		}
	}
	pinSet := set["PInHost"] || set["PInDeepN"]
	zzverif.Assert(f("PIn").IsNil() == !pinSet, "C10 flatten PIn: parent set/unset wrongly")
	embSet := set["E1"] || set["E2"]
	zzverif.Assert(f("C10Emb").IsNil() == !embSet, "C10 flatten embedded struct: set/unset wrongly")
	if embSet && !f("C10Emb").IsNil() {
		e := f("C10Emb").Elem()
		leaf(set["E1"], e.FieldByName("E1"), "E1")
		leaf(set["E2"], e.FieldByName("E2"), "E2")
	}
	if leaf(set["Last"], f("Last"), "Last") {
		zzverif.Assert(f("Last").Elem().Uint() == 8, "C10 flatten Last: wrong value (shifted from a neighbouring field?)")
	}
	zzverif.Reached("c10-flatten-end")
}

// HarnessC10Chains: several mangler lists; a subset of the simple leaves is written to wherever
// the translated type has them and must come back at the original place.
func HarnessC10Chains() {
	t := c10origType()
	var ms []Mangler
	chain := zzverif.Choose("chain", 5)
	switch chain {
	case 0:
		ms = []Mangler{AnonymousFlattenMangler{}}
	case 1:
		ms = []Mangler{&TextUnmarshalerMangler{}}
	case 2:
		ms = []Mangler{NewAliasMangler(common.DialsTagName), &SetSliceMangler{}}
	case 3:
		ms = []Mangler{AnonymousFlattenMangler{}, &SetSliceMangler{}, &TextUnmarshalerMangler{}}
	case 4:
		ms = []Mangler{&SetSliceMangler{}, AnonymousFlattenMangler{}}
	}
	tfm := NewTransformer(t, ms...)
	val, err := tfm.Translate()
	zzverif.Assert(err == nil, "C10 chain: Translate failed")
	if err != nil {
		return
	}
	sPort, sNames, sLast, sE1, sTU, sTags := zzverif.Bool("port"), zzverif.Bool("names"), zzverif.Bool("last"), zzverif.Bool("e1"), zzverif.Bool("tu"), zzverif.Bool("tags")
	pv := zzverif.Int16("portv")
	if sPort {
		c10setPtr(val.FieldByName("Port"), pv)
	}
	if sNames {
		val.FieldByName("Names").Set(reflect.ValueOf([]string{"n"}))
	}
	if sLast {
		c10setPtr(val.FieldByName("Last"), uint8(8))
	}
	if sE1 {
		if !val.FieldByName("C10Emb").IsValid() {
			c10setPtr(val.FieldByName("E1"), int8(5)) // hoisted by the anonymous-flatten mangler
		} else {
			ef := val.FieldByName("C10Emb")
			ef.Set(reflect.New(ef.Type().Elem()))
			c10setPtr(ef.Elem().FieldByName("E1"), int8(5))
		}
	}
	tuAsText := val.FieldByName("TU").Type() == reflect.TypeOf((*string)(nil))
	if sTU {
		if tuAsText {
			c10setPtr(val.FieldByName("TU"), "x")
		} else {
			c10setPtr(val.FieldByName("TU"), c10tu{v: 'x'})
		}
	}
	tagsAsSlice := val.FieldByName("Tags").Kind() == reflect.Slice
	if sTags {
		if tagsAsSlice {
			val.FieldByName("Tags").Set(reflect.ValueOf([]string{"a"}))
		} else {
			val.FieldByName("Tags").Set(reflect.ValueOf(map[string]struct{}{"a": {}}))
		}
	}
	out, rerr := tfm.ReverseTranslate(val)
	zzverif.Assert(rerr == nil, "C10 chain: ReverseTranslate failed")
	if rerr != nil {
		return
	}
	zzverif.Assert(out.Type() == t, "C10 chain: the reversed value does not have exactly the original type")
	if out.Type() != t {
		return
	}
	f := func(n string) reflect.Value { return out.FieldByName(n) }
	zzverif.Assert(f("Port").IsNil() == !sPort, "C10 chain: Port set/unset wrongly")
	if sPort && !f("Port").IsNil() {
		zzverif.Assert(f("Port").Elem().Int() == int64(pv), "C10 chain: Port changed value")
	}
	zzverif.Assert(f("Names").IsNil() == !sNames, "C10 chain: Names set/unset wrongly")
	zzverif.Assert(f("Last").IsNil() == !sLast, "C10 chain: Last set/unset wrongly")
	if sLast && !f("Last").IsNil() {
		zzverif.Assert(f("Last").Elem().Uint() == 8, "C10 chain: Last changed value")
	}
	zzverif.Assert(f("C10Emb").IsNil() == !sE1, "C10 chain: the embedded struct is set/unset wrongly")
	if sE1 && !f("C10Emb").IsNil() {
		e := f("C10Emb").Elem()
		zzverif.Assert(!e.FieldByName("E1").IsNil() && e.FieldByName("E1").Elem().Int() == 5, "C10 chain: embedded leaf E1 lost or changed")
		zzverif.Assert(e.FieldByName("E2").IsNil(), "C10 chain: embedded leaf E2 set although nothing was written")
	}
	zzverif.Assert(f("TU").IsNil() == !sTU, "C10 chain: the text-unmarshalable leaf is set/unset wrongly")
	if sTU && !f("TU").IsNil() {
		zzverif.Assert(f("TU").Elem().FieldByName("v").Uint() == 'x', "C10 chain: the text-unmarshalable leaf does not hold the unmarshalled text")
	}
	zzverif.Assert(f("Tags").IsNil() == !sTags, "C10 chain: the set leaf is set/unset wrongly")
	if sTags && !f("Tags").IsNil() {
		zzverif.Assert(f("Tags").Len() == 1 && f("Tags").MapIndex(reflect.ValueOf("a")).IsValid(), "C10 chain: the set leaf lost its member")
	}
	for _, n := range []string{"In", "PIn", "Wait"} {
		zzverif.Assert(f(n).IsNil(), "C10 chain: leaf "+n+" is set although nothing was written to it")
	}
	zzverif.Reached("c10-chains-end")
}
