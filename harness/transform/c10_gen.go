package transform

// C10 on the generated family of config struct types (zzverif.GenStruct): translate with a
// mangler list, write any subset of the leaves into the translated value wherever the list put
// them, reverse, compare with what was written.

import (
	"reflect"
	"strconv"
	"strings"
	"time"

	"github.com/vimeo/dials/common"
	"github.com/vimeo/dials/ptrify"
	"github.com/vimeo/dials/tagformat/caseconversion"
	"github.com/vimeo/dials/zzverif"
)

func c10own(v reflect.Value, name string) reflect.Value {
	t := v.Type()
	for i := 0; i < t.NumField(); i++ {
		if t.Field(i).Name == name {
			return v.Field(i)
		}
	}
	return reflect.Value{}
}

// c10write stores the canonical test value of the leaf kind into the translated field f.
func c10write(f reflect.Value, kind int, n int8) bool {
	t := f.Type()
	switch t.Kind() {
	case reflect.Ptr:
		p := reflect.New(t.Elem())
		e := p.Elem()
		switch kind {
		case zzverif.GLInt8:
			e.SetInt(int64(n))
		case zzverif.GLString:
			e.SetString("s")
		case zzverif.GLDuration:
			e.SetInt(int64(3 * time.Second))
		case zzverif.GLNamedUint8:
			e.SetUint(7)
		case zzverif.GLPtrInt16:
			e.SetInt(12)
		default:
			return false
		}
		f.Set(p)
	case reflect.Slice:
		if kind == zzverif.GLSet {
			f.Set(reflect.ValueOf([]string{"a"}).Convert(t))
		} else {
			f.Set(reflect.ValueOf([]string{"a", "b"}).Convert(t))
		}
	case reflect.Map:
		m := reflect.MakeMap(t)
		m.SetMapIndex(reflect.ValueOf("a"), reflect.ValueOf(struct{}{}))
		f.Set(m)
	default:
		return false
	}
	return true
}

func c10gen(nfields int) {
	shapes := make([]int, nfields)
	for i := range shapes {
		shapes[i] = zzverif.Choose("shape"+strconv.Itoa(i), zzverif.GenNumShapes())
	}
	gt, ok := zzverif.GenStruct(shapes)
	if !ok {
		zzverif.Reached("c10-gen-end")
		return
	}
	t := ptrify.Pointerify(gt.T, reflect.Value{})
	var ms []Mangler
	flat, anon := false, false
	switch zzverif.Choose("chain", 5) {
	case 0:
		ms, flat = []Mangler{NewFlattenMangler(common.DialsTagName, caseconversion.EncodeUpperCamelCase, caseconversion.EncodeUpperCamelCase)}, true
	case 1:
		ms, anon = []Mangler{AnonymousFlattenMangler{}}, true
	case 2:
		ms = []Mangler{&SetSliceMangler{}}
	case 3:
		ms, anon = []Mangler{AnonymousFlattenMangler{}, &SetSliceMangler{}}, true
	case 4:
		ms = []Mangler{NewAliasMangler(common.DialsTagName), &SetSliceMangler{}, &TextUnmarshalerMangler{}}
	}
	tfm := NewTransformer(t, ms...)
	val, err := tfm.Translate()
	zzverif.Assert(err == nil, "C10 generated type ["+gt.Desc+"]: Translate failed")
	if err != nil {
		return
	}
	has := make([]bool, len(gt.Leaves))
	nv := zzverif.Int8("n")
	for i, l := range gt.Leaves {
		has[i] = zzverif.Bool("has" + strconv.Itoa(i))
		if !has[i] {
			continue
		}
		// where the mangler list put the leaf
		var path []string
		switch {
		case flat:
			path = []string{l.Name("", func(s string) string { return s })}
		case anon && l.Emb[0]:
			path = l.Path[1:]
		default:
			path = l.Path
		}
		v := val
		okPath := true
		for k, name := range path {
			f := c10own(v, name)
			if !f.IsValid() {
				okPath = false
				break
			}
			if k == len(path)-1 {
				okPath = c10write(f, l.Kind, nv)
				break
			}
			if f.Kind() == reflect.Ptr {
				if f.IsNil() {
					f.Set(reflect.New(f.Type().Elem()))
				}
				f = f.Elem()
			}
			v = f
		}
		if !okPath {
			zzverif.Fail("C10 generated type [" + gt.Desc + "]: the translated type has no counterpart for leaf " + strings.Join(l.Path, "."))
			return
		}
	}
	out, rerr := tfm.ReverseTranslate(val)
	zzverif.Assert(rerr == nil, "C10 generated type ["+gt.Desc+"]: ReverseTranslate failed")
	if rerr != nil {
		return
	}
	zzverif.Assert(out.Type() == t, "C10 generated type ["+gt.Desc+"]: the reversed value does not have exactly the original type")
	if out.Type() != t {
		return
	}
	for i, l := range gt.Leaves {
		for n := 1; n < len(l.Path); n++ {
			anyBelow := false
			for j, m := range gt.Leaves {
				if len(m.Path) > n && strings.Join(m.Path[:n], ".") == strings.Join(l.Path[:n], ".") && has[j] {
					anyBelow = true
				}
			}
			p := zzverif.GenParent(out, l, n)
			if p.IsValid() {
				zzverif.Assert(zzverif.GenIsNilLeaf(p) == !anyBelow, "C10 generated type ["+gt.Desc+"]: struct "+strings.Join(l.Path[:n], ".")+" set although nothing below it was written, or unset although something was")
			}
		}
		leaf, reached := zzverif.GenGet(out, l)
		if !leaf.IsValid() {
			zzverif.Assert(!has[i] && reached >= 1, "C10 generated type ["+gt.Desc+"]: leaf "+strings.Join(l.Path, ".")+" is unreachable although it was written")
			continue
		}
		zzverif.Assert(zzverif.GenIsNilLeaf(leaf) == !has[i], "C10 generated type ["+gt.Desc+"]: leaf "+strings.Join(l.Path, ".")+" set although nothing was written to its translated field, or lost although something was")
		if has[i] && !zzverif.GenIsNilLeaf(leaf) {
			zzverif.Assert(zzverif.GenLeafIs(leaf, l.Kind, nv), "C10 generated type ["+gt.Desc+"]: leaf "+strings.Join(l.Path, ".")+" does not hold the value written to its translated counterpart")
		}
	}
	zzverif.Reached("c10-gen-end")
}

func HarnessC10Gen2() { c10gen(2) }
func HarnessC10Gen3() { c10gen(3) }
