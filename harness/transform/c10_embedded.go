package transform

// C10 on a type with two levels of embedding, a nested struct and slices of structs inside and
// outside the embedded struct.

import (
	"reflect"

	"github.com/vimeo/dials/common"
	"github.com/vimeo/dials/ptrify"
	"github.com/vimeo/dials/zzverif"
)

type C10Base struct{ ID int8 }

// embedded in the element struct, with an unexported field ahead of the exported ones
type C10ElemBase struct {
	rev   int
	Name  string
	Owner string
	tail  int // ... and one after them
}

type c10elem struct {
	N      string `dials:"n" dialsalias:"nn"` // an aliased leaf inside a slice element
	hidden int // element structs are not pointerified: unexported fields survive into the transformer
	V      int8
	PS     *struct{ Max int8 }
	C10ElemBase
}

type C10Mid struct {
	C10Base
	Sub  struct{ K string }
	List []c10elem
	M1   string
}

type c10cfg2 struct {
	First int8
	C10Mid
	Items  []c10elem
	Stamps []c10tu // slice of text-unmarshalable structs (like []time.Time)
	Last   uint8
}

// c10locate finds the translated field called name at the top level or inside struct-typed
// fields (allocating the pointers on the way down only when the field is found below them).
func c10locate(v reflect.Value, name string, depth int) (reflect.Value, bool) {
	if depth > 4 {
		return reflect.Value{}, false
	}
	for i := 0; i < v.NumField(); i++ {
		if v.Type().Field(i).Name == name {
			return v.Field(i), true
		}
	}
	for i := 0; i < v.NumField(); i++ {
		f := v.Field(i)
		switch {
		case f.Kind() == reflect.Ptr && f.Type().Elem().Kind() == reflect.Struct:
			if !f.IsNil() {
				if r, ok := c10locate(f.Elem(), name, depth+1); ok {
					return r, true
				}
				continue
			}
			tmp := reflect.New(f.Type().Elem())
			if r, ok := c10locate(tmp.Elem(), name, depth+1); ok {
				f.Set(tmp)
				return r, true
			}
		case f.Kind() == reflect.Struct:
			if r, ok := c10locate(f, name, depth+1); ok {
				return r, true
			}
		}
	}
	return reflect.Value{}, false
}

// c10elems builds a slice of the translated element type: nil, empty, or one element {N:"n", V:v}.
func c10elems(st reflect.Type, mode int, v int8) reflect.Value {
	switch mode {
	case 0:
		return reflect.Zero(st)
	case 1:
		return reflect.MakeSlice(st, 0, 0)
	}
	n := mode - 1 // mode 2: one element; mode 3: two elements (each with its own pointer-to-struct)
	s := reflect.MakeSlice(st, n, n)
	for i := 0; i < n; i++ {
		e := s.Index(i)
		c10setPtr(e.FieldByName("N"), "n")
		c10setPtr(e.FieldByName("V"), v)
		if ps := e.FieldByName("PS"); ps.IsValid() && ps.Kind() == reflect.Ptr {
			p := reflect.New(ps.Type().Elem())
			p.Elem().FieldByName("Max").SetInt(int64(10 + i))
			ps.Set(p)
		}
		if f, ok := c10locate(e, "Name", 0); ok {
			c10setPtr(f, "nm")
		}
		if f, ok := c10locate(e, "Owner", 0); ok {
			c10setPtr(f, "ow")
		}
	}
	return s
}

func c10chkElems(s reflect.Value, mode int, v int8, what string) {
	switch mode {
	case 0:
		zzverif.Assert(s.IsNil(), "C10 embedded "+what+": an unset slice of structs came back set")
	case 1:
		zzverif.Assert(!s.IsNil() && s.Len() == 0, "C10 embedded "+what+": an explicitly empty slice of structs did not come back empty and non-nil")
	case 2, 3:
		n := mode - 1
		zzverif.Assert(!s.IsNil() && s.Len() == n, "C10 embedded "+what+": a slice of structs changed length")
		if !s.IsNil() && s.Len() == n {
			for i := 0; i < n; i++ {
				e := s.Index(i)
				zzverif.Assert(e.FieldByName("N").String() == "n" && e.FieldByName("V").Int() == int64(v), "C10 embedded "+what+": the element's leaves changed")
				ps := e.FieldByName("PS")
				zzverif.Assert(!ps.IsNil() && ps.Elem().FieldByName("Max").Int() == int64(10+i), "C10 embedded "+what+": an element's pointer-to-struct leaf lost its value (or is shared with another element)")
				b := e.FieldByName("C10ElemBase")
				zzverif.Assert(b.FieldByName("Name").String() == "nm" && b.FieldByName("Owner").String() == "ow", "C10 embedded "+what+": a leaf of the struct embedded in the element (declared after an unexported field) was lost")
			}
		}
	}
}

func HarnessC10Embedded() {
	t := ptrify.Pointerify(reflect.TypeOf(c10cfg2{}), reflect.Value{})
	var ms []Mangler
	switch zzverif.Choose("chain", 4) {
	case 0:
		ms = []Mangler{AnonymousFlattenMangler{}}
	case 1:
		ms = []Mangler{&SetSliceMangler{}}
	case 2:
		ms = []Mangler{AnonymousFlattenMangler{}, &SetSliceMangler{}}
	case 3:
		ms = []Mangler{NewAliasMangler(common.DialsTagName), &TextUnmarshalerMangler{}}
	}
	tfm := NewTransformer(t, ms...)
	val, err := tfm.Translate()
	zzverif.Assert(err == nil, "C10 embedded: Translate failed")
	if err != nil {
		return
	}
	sFirst, sID, sK, sM1, sLast := zzverif.Bool("first"), zzverif.Bool("id"), zzverif.Bool("k"), zzverif.Bool("m1"), zzverif.Bool("last")
	mList, mItems := zzverif.Choose("list", 3), zzverif.Choose("items", 4)
	sStamps := zzverif.Bool("stamps")
	ev := zzverif.Int8("ev")
	idv := zzverif.Int8("idv")
	put := func(name string, x interface{}) bool {
		f, ok := c10locate(val, name, 0)
		if !ok {
			zzverif.Fail("C10 embedded: the translated type has no field for leaf " + name)
			return false
		}
		c10setPtr(f, x)
		return true
	}
	if sFirst && !put("First", int8(3)) {
		return
	}
	if sID && !put("ID", idv) {
		return
	}
	if sK && !put("K", "k") {
		return
	}
	if sM1 && !put("M1", "m") {
		return
	}
	if sLast && !put("Last", uint8(8)) {
		return
	}
	if mList != 0 {
		f, ok := c10locate(val, "List", 0)
		if !ok {
			zzverif.Fail("C10 embedded: the translated type has no field for leaf List")
			return
		}
		f.Set(c10elems(f.Type(), mList, ev))
	}
	if mItems != 0 {
		f, ok := c10locate(val, "Items", 0)
		if !ok {
			zzverif.Fail("C10 embedded: the translated type has no field for leaf Items")
			return
		}
		f.Set(c10elems(f.Type(), mItems, ev))
	}
	if sStamps {
		f, ok := c10locate(val, "Stamps", 0)
		if !ok {
			zzverif.Fail("C10 embedded: the translated type has no field for leaf Stamps")
			return
		}
		zzverif.Assert(f.Type() == reflect.TypeOf([]c10tu(nil)) || f.Type() == reflect.TypeOf([]string(nil)), "C10 embedded: a slice of text-unmarshalable structs was rebuilt as "+f.Type().String()+" (its elements can no longer carry a value)")
		switch f.Type() {
		case reflect.TypeOf([]c10tu(nil)):
			f.Set(reflect.ValueOf([]c10tu{{v: 'x'}}))
		case reflect.TypeOf([]string(nil)):
			f.Set(reflect.ValueOf([]string{"x"}))
		default:
			f.Set(reflect.MakeSlice(f.Type(), 1, 1))
		}
	}
	out, rerr := tfm.ReverseTranslate(val)
	zzverif.Assert(rerr == nil, "C10 embedded: ReverseTranslate failed")
	if rerr != nil {
		return
	}
	zzverif.Assert(out.Type() == t, "C10 embedded: the reversed value does not have exactly the original type")
	if out.Type() != t {
		return
	}
	// a Transformer is used for many values (every report of a wrapped watcher, every flag-source
	// call): reversing an empty value afterwards gives an entirely unset result and leaves the
	// earlier result alone
	empty, eerr := tfm.Translate()
	if eerr == nil {
		out2, rerr2 := tfm.ReverseTranslate(empty)
		zzverif.Assert(rerr2 == nil, "C10 embedded: reversing an empty translated value failed")
		if rerr2 == nil {
			for i := 0; i < out2.NumField(); i++ {
				zzverif.Assert(out2.Field(i).IsNil(), "C10 embedded: an empty translated value did not reverse to an entirely unset original")
			}
		}
	}
	f := func(n string) reflect.Value { return out.FieldByName(n) }
	zzverif.Assert(f("First").IsNil() == !sFirst, "C10 embedded: First set/unset wrongly")
	zzverif.Assert(f("Last").IsNil() == !sLast, "C10 embedded: Last set/unset wrongly")
	if sLast && !f("Last").IsNil() {
		zzverif.Assert(f("Last").Elem().Uint() == 8, "C10 embedded: Last changed value")
	}
	c10chkElems(f("Items"), mItems, ev, "Items")
	zzverif.Assert(f("Stamps").IsNil() == !sStamps, "C10 embedded: Stamps set/unset wrongly")
	if sStamps && !f("Stamps").IsNil() {
		st := f("Stamps")
		zzverif.Assert(st.Len() == 1 && st.Index(0).FieldByName("v").Uint() == 'x', "C10 embedded: an element of a slice of text-unmarshalable structs lost its value")
	}
	midSet := sID || sK || sM1 || mList != 0
	mid := out.Field(1)
	zzverif.Assert(mid.IsNil() == !midSet, "C10 embedded: the embedded struct is set although none of its leaves was written, or unset although one was")
	if midSet && !mid.IsNil() {
		m := mid.Elem()
		base := m.Field(0)
		zzverif.Assert(base.IsNil() == !sID, "C10 embedded: the second-level embedded struct is set/unset wrongly")
		if sID && !base.IsNil() {
			id := base.Elem().Field(0)
			zzverif.Assert(!id.IsNil() && id.Elem().Int() == int64(idv), "C10 embedded: the leaf of the second-level embedded struct lost its value")
		}
		sub := m.FieldByName("Sub")
		zzverif.Assert(sub.IsNil() == !sK, "C10 embedded: the nested struct inside the embedded struct is set/unset wrongly")
		if sK && !sub.IsNil() {
			k := sub.Elem().FieldByName("K")
			zzverif.Assert(!k.IsNil() && k.Elem().String() == "k", "C10 embedded: nested leaf K lost its value")
		}
		m1 := m.FieldByName("M1")
		zzverif.Assert(m1.IsNil() == !sM1, "C10 embedded: M1 set/unset wrongly")
		c10chkElems(m.FieldByName("List"), mList, ev, "List")
	}
	zzverif.Reached("c10-embedded-end")
}
