package transform

// C10: single-type substitution (as the JSON and CUE decoders use it for time.Duration) at the
// top level, behind user pointers, and inside slices (with spare capacity), arrays and maps,
// including nil pointer elements.

import (
	"reflect"
	"time"

	"github.com/vimeo/dials/ptrify"
	"github.com/vimeo/dials/zzverif"
)

type c10dur int64

type c10ts struct {
	D  time.Duration
	PD *time.Duration
	L  []time.Duration
	LP []*time.Duration
	M  map[string]time.Duration
	MP map[string]*time.Duration
	A  [2]time.Duration
	N  int8
	// user-declared pointers to collections of the substituted type, and a pointer to a pointer
	PL *[]time.Duration
	PM *map[string]time.Duration
	PP **time.Duration
}

func HarnessC10TypeSubst() {
	t := ptrify.Pointerify(reflect.TypeOf(c10ts{}), reflect.Value{})
	m, merr := NewSingleTypeSubstitutionMangler[time.Duration, c10dur]()
	zzverif.Assert(merr == nil, "C10 type substitution: constructing the mangler failed")
	if merr != nil {
		return
	}
	tfm := NewTransformer(t, m)
	val, err := tfm.Translate()
	zzverif.Assert(err == nil, "C10 type substitution: Translate failed")
	if err != nil {
		return
	}
	dv := zzverif.Int64("d")
	sD, sPD, sN := zzverif.Bool("D"), zzverif.Bool("PD"), zzverif.Bool("N")
	mL := zzverif.Choose("L", 4)   // unset, empty, one element with spare capacity, two elements
	mLP := zzverif.Choose("LP", 3) // unset, [ptr], [ptr, nil]
	mM := zzverif.Choose("M", 2)
	mMP := zzverif.Choose("MP", 3) // unset, {a:ptr}, {a:ptr, b:nil}
	sA := zzverif.Bool("A")
	sPL, sPM, sPP := zzverif.Bool("PL"), zzverif.Bool("PM"), zzverif.Bool("PP")
	durT := reflect.TypeOf(c10dur(0))
	f := func(n string) reflect.Value { return val.FieldByName(n) }
	for _, n := range []string{"D", "PD"} {
		zzverif.Assert(f(n).Type() == reflect.PtrTo(durT), "C10 type substitution: field "+n+" was not substituted in the translated type")
	}
	if sD {
		x := c10dur(dv)
		f("D").Set(reflect.ValueOf(&x))
	}
	if sPD {
		x := c10dur(dv + 1)
		f("PD").Set(reflect.ValueOf(&x))
	}
	if sN {
		x := int8(4)
		f("N").Set(reflect.ValueOf(&x))
	}
	switch mL {
	case 1:
		f("L").Set(reflect.MakeSlice(f("L").Type(), 0, 0))
	case 2:
		s := reflect.MakeSlice(f("L").Type(), 1, 4)
		s.Index(0).SetInt(dv)
		f("L").Set(s)
	case 3:
		s := reflect.MakeSlice(f("L").Type(), 2, 2)
		s.Index(0).SetInt(dv)
		s.Index(1).SetInt(7)
		f("L").Set(s)
	}
	if mLP != 0 {
		s := reflect.MakeSlice(f("LP").Type(), mLP, mLP+2)
		x := c10dur(dv)
		s.Index(0).Set(reflect.ValueOf(&x))
		f("LP").Set(s)
	}
	if mM == 1 {
		mm := reflect.MakeMap(f("M").Type())
		mm.SetMapIndex(reflect.ValueOf("a"), reflect.ValueOf(c10dur(dv)))
		f("M").Set(mm)
	}
	if mMP != 0 {
		mm := reflect.MakeMap(f("MP").Type())
		x := c10dur(dv)
		mm.SetMapIndex(reflect.ValueOf("a"), reflect.ValueOf(&x))
		if mMP == 2 {
			mm.SetMapIndex(reflect.ValueOf("b"), reflect.Zero(f("MP").Type().Elem()))
		}
		f("MP").Set(mm)
	}
	if sA {
		a := reflect.New(f("A").Type().Elem())
		a.Elem().Index(0).SetInt(dv)
		a.Elem().Index(1).SetInt(9)
		f("A").Set(a)
	}
	if sPL {
		sl := reflect.MakeSlice(f("PL").Type().Elem(), 1, 1)
		sl.Index(0).SetInt(dv)
		p := reflect.New(sl.Type())
		p.Elem().Set(sl)
		f("PL").Set(p)
	}
	if sPM {
		mm := reflect.MakeMap(f("PM").Type().Elem())
		mm.SetMapIndex(reflect.ValueOf("a"), reflect.ValueOf(c10dur(dv)))
		p := reflect.New(mm.Type())
		p.Elem().Set(mm)
		f("PM").Set(p)
	}
	if sPP {
		x := c10dur(dv)
		px := &x
		f("PP").Set(reflect.ValueOf(&px))
	}
	out, rerr := tfm.ReverseTranslate(val)
	zzverif.Assert(rerr == nil, "C10 type substitution: ReverseTranslate failed")
	if rerr != nil {
		return
	}
	zzverif.Assert(out.Type() == t, "C10 type substitution: the reversed value does not have exactly the original type")
	if out.Type() != t {
		return
	}
	o := func(n string) reflect.Value { return out.FieldByName(n) }
	zzverif.Assert(o("D").IsNil() == !sD, "C10 type substitution: D set/unset wrongly")
	if sD && !o("D").IsNil() {
		zzverif.Assert(o("D").Elem().Int() == dv, "C10 type substitution: D changed value")
	}
	zzverif.Assert(o("PD").IsNil() == !sPD, "C10 type substitution: PD set/unset wrongly")
	if sPD && !o("PD").IsNil() {
		zzverif.Assert(o("PD").Elem().Int() == dv+1, "C10 type substitution: PD changed value")
	}
	zzverif.Assert(o("N").IsNil() == !sN, "C10 type substitution: an unrelated leaf was set/unset wrongly")
	zzverif.Assert(o("L").IsNil() == (mL == 0), "C10 type substitution: L set/unset wrongly")
	if mL != 0 && !o("L").IsNil() {
		zzverif.Assert(o("L").Len() == mL-1, "C10 type substitution: the slice changed length")
		if mL >= 2 && o("L").Len() >= 1 {
			zzverif.Assert(o("L").Index(0).Int() == dv, "C10 type substitution: a slice element changed value")
		}
	}
	zzverif.Assert(o("LP").IsNil() == (mLP == 0), "C10 type substitution: LP set/unset wrongly")
	if mLP != 0 && !o("LP").IsNil() {
		zzverif.Assert(o("LP").Len() == mLP, "C10 type substitution: the slice of pointers changed length")
		if o("LP").Len() == mLP {
			zzverif.Assert(!o("LP").Index(0).IsNil() && o("LP").Index(0).Elem().Int() == dv, "C10 type substitution: a pointer element lost its value")
			if mLP == 2 {
				zzverif.Assert(o("LP").Index(1).IsNil(), "C10 type substitution: a nil pointer element became non-nil")
			}
		}
	}
	zzverif.Assert(o("M").IsNil() == (mM == 0), "C10 type substitution: M set/unset wrongly")
	if mM == 1 && !o("M").IsNil() {
		v := o("M").MapIndex(reflect.ValueOf("a"))
		zzverif.Assert(v.IsValid() && v.Int() == dv, "C10 type substitution: a map value changed")
	}
	zzverif.Assert(o("MP").IsNil() == (mMP == 0), "C10 type substitution: MP set/unset wrongly")
	if mMP != 0 && !o("MP").IsNil() {
		v := o("MP").MapIndex(reflect.ValueOf("a"))
		zzverif.Assert(o("MP").Len() == mMP && v.IsValid() && !v.IsNil() && v.Elem().Int() == dv, "C10 type substitution: a map of pointers lost an entry or value")
		if mMP == 2 {
			b := o("MP").MapIndex(reflect.ValueOf("b"))
			zzverif.Assert(b.IsValid() && b.IsNil(), "C10 type substitution: a nil pointer map value was lost or became non-nil")
		}
	}
	zzverif.Assert(o("A").IsNil() == !sA, "C10 type substitution: A set/unset wrongly")
	if sA && !o("A").IsNil() {
		zzverif.Assert(o("A").Elem().Index(0).Int() == dv && o("A").Elem().Index(1).Int() == 9, "C10 type substitution: an array element changed")
	}
	zzverif.Assert(o("PL").IsNil() == !sPL && o("PM").IsNil() == !sPM && o("PP").IsNil() == !sPP, "C10 type substitution: a pointer to a collection (or to a pointer) of the substituted type is set/unset wrongly")
	if sPL && !o("PL").IsNil() {
		zzverif.Assert(o("PL").Elem().Len() == 1 && o("PL").Elem().Index(0).Int() == dv, "C10 type substitution: *[]Duration lost its value")
	}
	if sPM && !o("PM").IsNil() {
		v := o("PM").Elem().MapIndex(reflect.ValueOf("a"))
		zzverif.Assert(v.IsValid() && v.Int() == dv, "C10 type substitution: *map[string]Duration lost its value")
	}
	if sPP && !o("PP").IsNil() {
		zzverif.Assert(!o("PP").Elem().IsNil() && o("PP").Elem().Elem().Int() == dv, "C10 type substitution: **Duration lost its value")
	}
	zzverif.Reached("c10-typesubst-end")
}

// HarnessC10StringCast: the string-casting mangler (every leaf becomes a *string for the source
// to fill): a string leaf gets back exactly the text that was written, whitespace included; an
// integer leaf the parsed value.
func HarnessC10StringCast() {
	type cfg struct {
		S string
		N int16
		B []string
		M map[string]string
	}
	t := ptrify.Pointerify(reflect.TypeOf(cfg{}), reflect.Value{})
	tfm := NewTransformer(t, &StringCastingMangler{})
	val, err := tfm.Translate()
	zzverif.Assert(err == nil, "C10 string casting: Translate failed")
	if err != nil {
		return
	}
	txt := zzverif.Bytes("txt", 2)
	sS, sN := zzverif.Bool("S"), zzverif.Bool("N")
	if sS {
		x := txt
		val.FieldByName("S").Set(reflect.ValueOf(&x))
	}
	if sN {
		x := "12"
		val.FieldByName("N").Set(reflect.ValueOf(&x))
	}
	// a map leaf: a key written without a value (after a pair that has one) holds the empty string
	mMode := zzverif.Choose("M", 4)
	if mMode != 0 {
		x := []string{"", "a:x,b:", "a:x,b", `a:x,b:""`}[mMode]
		val.FieldByName("M").Set(reflect.ValueOf(&x))
	}
	out, rerr := tfm.ReverseTranslate(val)
	zzverif.Assert(rerr == nil, "C10 string casting: ReverseTranslate failed")
	if rerr != nil {
		return
	}
	zzverif.Assert(out.FieldByName("S").IsNil() == !sS && out.FieldByName("N").IsNil() == !sN && out.FieldByName("B").IsNil(), "C10 string casting: a leaf is set although nothing was written to it, or lost although something was")
	if sS && !out.FieldByName("S").IsNil() {
		zzverif.Assert(zzverif.StrEq(out.FieldByName("S").Elem().String(), txt), "C10 string casting: a string leaf does not hold exactly the text written to its translated counterpart")
	}
	if sN && !out.FieldByName("N").IsNil() {
		zzverif.Assert(out.FieldByName("N").Elem().Int() == 12, "C10 string casting: an integer leaf does not hold the parsed value")
	}
	mv := out.FieldByName("M")
	zzverif.Assert(mv.IsNil() == (mMode == 0), "C10 string casting: a map leaf is set although nothing was written to it, or lost although something was")
	if mMode != 0 && !mv.IsNil() {
		a, b := mv.MapIndex(reflect.ValueOf("a")), mv.MapIndex(reflect.ValueOf("b"))
		zzverif.Assert(mv.Len() == 2 && a.IsValid() && a.String() == "x" && b.IsValid() && b.String() == "", "C10 string casting: a map leaf does not hold the pairs written to its translated counterpart (a key without a value holds the empty string)")
	}
	zzverif.Reached("c10-stringcast-end")
}
