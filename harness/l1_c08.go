package dials

import (
	"reflect"
	"errors"
	"context"
	"strconv"

	"github.com/vimeo/dials/zzverif"
)

// c08ops: a sequence of public operations distributed over the harness goroutine and one helper
// goroutine, with shutdown (context cancellation or every watcher Done) at an arbitrary point.
// Nothing may panic or deadlock, every call returns, and after shutdown the background
// goroutines are gone.
func c08ops(nops int, helper bool) {
	verifyLog = nil
	log := &cbLog{}
	def := hcfg{}
	src := &hwsrc{hsrc{name: "s0", init: hval{setA: true, a: 0}}}
	ctx, cancel := context.WithCancel(context.Background())
	p := log.params()
	p.DelayInitialVerification = zzverif.Choose("delay", 2) == 1
	d, err := p.Config(ctx, &def, src)
	if err != nil {
		zzverif.Fail("C04 Config failed on a valid stack")
		cancel()
		return
	}
	var unreg UnregisterCBFunc
	shutdown := false
	// the contexts passed to the calls end eventually: a call may block until then (e.g. after
	// shutdown) but not longer. The watchdog cancels it only once nothing else can move.
	opctx, ocancel := context.WithCancel(ctx)
	go func() {
		zzverif.Daemon()
		zzverif.Quiesce()
		ocancel()
	}()
	doOp := func(who string, i int) {
		op := zzverif.Choose(who+"op"+strconv.Itoa(i), 9)
		ctx := opctx
		switch op {
		case 0: // report a value
			e := src.wa.ReportNewValue(ctx, mkValue(src.t, hval{setA: true, a: int64(i + 1)}))
			_ = e
		case 1: // report an error
			_ = src.wa.ReportError(ctx, errInvalid)
		case 2: // watcher done
			src.wa.Done(ctx)
			shutdown = true
		case 3: // register
			_, ser := d.ViewVersion()
			u := d.RegisterCallback(ctx, ser, func(context.Context, *hcfg, *hcfg) {})
			if u != nil {
				unreg = u
			}
		case 4: // unregister (possibly again)
			if unreg != nil {
				_ = unreg(ctx)
			}
		case 5: // enable verification
			_, _, _ = d.EnableVerification(ctx)
		case 6: // cancel the Config context
			cancel()
			shutdown = true
		case 7: // blocking report
			_ = src.wa.BlockingReportNewValue(ctx, mkValue(src.t, hval{setA: true, a: int64(i + 10)}))
		case 8: // blocking report of a value that fails Verify
			_ = src.wa.BlockingReportNewValue(ctx, mkValue(src.t, hval{setA: true, a: int64(i + 20), setBad: true, bad: true}))
		}
	}
	done := make(chan struct{})
	if helper {
		go func() {
			defer close(done)
			doOp("h", 0)
		}()
	} else {
		close(done)
	}
	for i := 0; i < nops; i++ {
		doOp("m", i)
	}
	<-done
	if !shutdown {
		cancel()
	}
	cancel()
	zzverif.Quiesce()
	zzverif.Assert(zzverif.NumParked() == 0, "C08 background goroutines are still alive after shutdown: "+zzverif.ParkedDesc())
	zzverif.Reached("c08-end")
}

// HarnessC08Quick: one operation on the caller racing with one on a helper goroutine.
func HarnessC08Quick() { c08ops(1, true) }

// HarnessC08Seq2: 2 sequential operations.
func HarnessC08Seq2() { c08ops(2, false) }

// HarnessC08Thorough: 2 operations plus helper.
func HarnessC08Thorough() { c08ops(2, true) }

// HarnessC08DoubleUnregister: unregistering twice (also when it was the only callback) neither
// panics nor blocks.
func HarnessC08DoubleUnregister() {
	verifyLog = nil
	def := hcfg{}
	src := &hwsrc{hsrc{name: "s0", init: hval{setA: true, a: 0}}}
	ctx, cancel := context.WithCancel(context.Background())
	defer cancel()
	d, err := Config(ctx, &def, src)
	if err != nil {
		zzverif.Fail("C04 Config failed on a valid stack")
		return
	}
	_, ser := d.ViewVersion()
	n := 1 + zzverif.Choose("ncallbacks", 2)
	var unregs []UnregisterCBFunc
	for i := 0; i < n; i++ {
		u := d.RegisterCallback(ctx, ser, func(context.Context, *hcfg, *hcfg) {})
		zzverif.Assert(u != nil, "C08 RegisterCallback returned nil with a live context")
		if u == nil {
			return
		}
		unregs = append(unregs, u)
	}
	zzverif.Assert(unregs[0](ctx), "C08 unregister failed with a live context")
	_ = unregs[0](ctx) // second time: must return, must not crash the callback goroutine
	// the library still works afterwards
	e := src.wa.BlockingReportNewValue(ctx, mkValue(src.t, hval{setA: true, a: 3}))
	zzverif.Assert(e == nil && d.View().A == 3, "C08 after a double unregister a new config was not installed")
	u2 := d.RegisterCallback(ctx, ser, func(context.Context, *hcfg, *hcfg) {})
	zzverif.Assert(u2 != nil, "C08 after a double unregister RegisterCallback failed")
	zzverif.Quiesce()
	zzverif.Reached("c08-double-unreg-end")
}

// HarnessC08LateCalls: after shutdown (context cancelled, or the only watcher Done) every API
// call returns with a failure indication instead of panicking or blocking.
func HarnessC08LateCalls() {
	verifyLog = nil
	def := hcfg{}
	src := &hwsrc{hsrc{name: "s0", init: hval{setA: true, a: 0}}}
	ctx, cancel := context.WithCancel(context.Background())
	defer cancel()
	p := Params[hcfg]{DelayInitialVerification: zzverif.Choose("delay", 2) == 1}
	d, err := p.Config(ctx, &def, src)
	if err != nil {
		zzverif.Fail("C04 Config failed on a valid stack")
		return
	}
	_, ser := d.ViewVersion()
	early := d.RegisterCallback(ctx, ser, func(context.Context, *hcfg, *hcfg) {})
	byDone := zzverif.Choose("shutdown", 2) == 1
	if byDone {
		src.wa.Done(ctx)
	} else {
		cancel()
	}
	zzverif.Quiesce()
	zzverif.Assert(zzverif.NumParked() == 0, "C08 background goroutines are still alive after shutdown: "+zzverif.ParkedDesc())
	// calls with a context that ends: they may not block past it
	lctx, lcancel := context.WithCancel(context.Background())
	go func() { lcancel() }()
	switch zzverif.Choose("late", 5) {
	case 0:
		u := d.RegisterCallback(lctx, ser, func(context.Context, *hcfg, *hcfg) {})
		if u != nil {
			_ = u(lctx)
		}
	case 1:
		if early != nil {
			zzverif.Assert(!early(lctx) || true, "")
		}
	case 2:
		_, _, _ = d.EnableVerification(lctx)
	case 3:
		e := src.wa.ReportNewValue(lctx, mkValue(src.t, hval{setA: true, a: 5}))
		zzverif.Assert(e != nil, "C08 a report after shutdown claimed success")
	case 4:
		e := src.wa.BlockingReportNewValue(lctx, mkValue(src.t, hval{setA: true, a: 5}))
		zzverif.Assert(e != nil, "C08 a blocking report after shutdown claimed success")
	}
	zzverif.Assert(d.View().A == 0, "C08 a value reported after shutdown became visible")
	zzverif.Reached("c08-late-end")
}

// HarnessC08BlockedCallback: a callback that blocks forever does not stop installs: 66 further
// updates (more than the callback queue's capacity of 64) are all installed and visible.
func HarnessC08BlockedCallback() {
	verifyLog = nil
	def := hcfg{}
	src := &hwsrc{hsrc{name: "s0", init: hval{setA: true, a: 0}}}
	ctx, cancel := context.WithCancel(context.Background())
	defer cancel()
	block := make(chan struct{})
	p := Params[hcfg]{OnNewConfig: func(context.Context, *hcfg, *hcfg) {
		zzverif.Daemon()
		<-block
	}}
	d, err := p.Config(ctx, &def, src)
	if err != nil {
		zzverif.Fail("C04 Config failed on a valid stack")
		return
	}
	for i := 1; i <= 67; i++ {
		e := src.wa.BlockingReportNewValue(ctx, mkValue(src.t, hval{setA: true, a: int64(i)}))
		zzverif.Assert(e == nil, "C08 a report failed while a callback is blocked")
		zzverif.Assert(d.View().A == int64(i), "C08 a blocked callback stopped new configs from being installed")
	}
	// source errors must not wedge the monitor either
	for i := 0; i < 3; i++ {
		zzverif.Assert(src.wa.ReportError(ctx, errInvalid) == nil, "C08 ReportError failed while a callback is blocked")
	}
	e := src.wa.BlockingReportNewValue(ctx, mkValue(src.t, hval{setA: true, a: 1000}))
	zzverif.Assert(e == nil && d.View().A == 1000, "C08 after a full callback queue and source errors a new config was not installed")
	// a rejected blocking report is answered with its error although the callback queue is full
	rej := src.wa.BlockingReportNewValue(ctx, mkValue(src.t, hval{setA: true, a: 1001, setBad: true, bad: true}))
	zzverif.Assert(rej != nil && errors.Is(rej, errInvalid), "C07 a rejected blocking report did not return the Verify error while the callback queue is full")
	zzverif.Assert(d.View().A == 1000, "C04 a rejected update changed the view")
	e = src.wa.BlockingReportNewValue(ctx, mkValue(src.t, hval{setA: true, a: 1002}))
	zzverif.Assert(e == nil && d.View().A == 1002, "C08 after a rejected report with a full callback queue new configs are no longer installed (monitor wedged)")
	zzverif.Reached("c08-blocked-end")
}

// HarnessC08BlockingCancel: a blocking report abandoned by its caller (its context ends at an
// arbitrary moment) must not wedge the monitor: later reports are served, and after shutdown no
// goroutine is left.
func HarnessC08BlockingCancel() {
	verifyLog = nil
	def := hcfg{}
	src := &hwsrc{hsrc{name: "s0", init: hval{setA: true, a: 0}}}
	ctx, cancel := context.WithCancel(context.Background())
	d, err := Config(ctx, &def, src)
	if err != nil {
		zzverif.Fail("C04 Config failed on a valid stack")
		cancel()
		return
	}
	bctx, bcancel := context.WithCancel(ctx)
	go func() { bcancel() }()
	_ = src.wa.BlockingReportNewValue(bctx, mkValue(src.t, hval{setA: true, a: 1}))
	zzverif.Quiesce()
	e := src.wa.ReportNewValue(ctx, mkValue(src.t, hval{setA: true, a: 2}))
	zzverif.Assert(e == nil, "C08 a report after an abandoned blocking report failed")
	zzverif.Quiesce()
	zzverif.Assert(d.View().A == 2, "C08 after a caller abandoned its blocking report, new configs are no longer installed (monitor wedged)")
	cancel()
	zzverif.Quiesce()
	zzverif.Assert(zzverif.NumParked() == 0, "C08 background goroutines are still alive after shutdown: "+zzverif.ParkedDesc())
	zzverif.Reached("c08-blocking-cancel-end")
}

// HarnessC08TwoWatchers: two watching sources finish in either order (also concurrently); the
// source that is still watching keeps working after the first Done, and after the second one the
// background goroutines are gone.
func HarnessC08TwoWatchers() {
	verifyLog = nil
	def := hcfg{}
	s0 := &hwsrc{hsrc{name: "s0", init: hval{setA: true, a: 0}}}
	s1 := &hwsrc{hsrc{name: "s1", init: hval{setB: true, b: 0}}}
	ctx, cancel := context.WithCancel(context.Background())
	defer cancel()
	d, err := Config(ctx, &def, s0, s1)
	if err != nil {
		zzverif.Fail("C04 Config failed on a valid stack")
		return
	}
	srcs := []*hwsrc{s0, s1}
	first := zzverif.Choose("firstDone", 2)
	if zzverif.Choose("concurrent", 2) == 1 {
		done := make(chan struct{})
		go func() {
			defer close(done)
			srcs[first].wa.Done(ctx)
		}()
		srcs[1-first].wa.Done(ctx)
		<-done
	} else {
		srcs[first].wa.Done(ctx)
		zzverif.Quiesce()
		// the other watcher is still live
		other := srcs[1-first]
		v := hval{setA: true, a: 7}
		if first == 0 {
			v = hval{setB: true, b: 7}
		}
		e := other.wa.BlockingReportNewValue(ctx, mkValue(other.t, v))
		zzverif.Assert(e == nil, "C08 a report from the watcher that is still live failed after another watcher was done")
		got := d.View()
		zzverif.Assert((first == 0 && got.B == 7) || (first == 1 && got.A == 7), "C08 after one watcher finished the other's update was not installed")
		other.wa.Done(ctx)
	}
	zzverif.Quiesce()
	zzverif.Assert(zzverif.NumParked() == 0, "C08 background goroutines are still alive after every watcher called Done: "+zzverif.ParkedDesc())
	lctx, lcancel := context.WithCancel(context.Background())
	go func() { lcancel() }()
	e := s0.wa.ReportNewValue(lctx, mkValue(s0.t, hval{setA: true, a: 9}))
	zzverif.Assert(e != nil, "C08 a report after every watcher was done claimed success")
	zzverif.Reached("c08-two-watchers-end")
}

// HarnessC08PendingUnregister: an unregistration is pending (optionally behind a callback that
// blocks forever) when the library shuts down; the unregister call returns at the latest when
// its own context ends, and the monitor is gone afterwards.
func HarnessC08PendingUnregister() {
	verifyLog = nil
	def := hcfg{}
	src := &hwsrc{hsrc{name: "s0", init: hval{setA: true, a: 0}}}
	ctx, cancel := context.WithCancel(context.Background())
	defer cancel()
	d, err := Config(ctx, &def, src)
	if err != nil {
		zzverif.Fail("C04 Config failed on a valid stack")
		return
	}
	_, ser := d.ViewVersion()
	stuck := zzverif.Choose("stuckCallback", 2) == 1
	block := make(chan struct{})
	if stuck {
		u0 := d.RegisterCallback(ctx, ser, func(context.Context, *hcfg, *hcfg) {
			zzverif.Daemon()
			<-block
		})
		zzverif.Assert(u0 != nil, "C08 RegisterCallback returned nil with a live context")
	}
	u := d.RegisterCallback(ctx, ser, func(context.Context, *hcfg, *hcfg) {})
	zzverif.Assert(u != nil, "C08 RegisterCallback returned nil with a live context")
	if u == nil {
		return
	}
	if stuck {
		e := src.wa.BlockingReportNewValue(ctx, mkValue(src.t, hval{setA: true, a: 1}))
		zzverif.Assert(e == nil && d.View().A == 1, "C08 a report failed while a callback is blocked")
	}
	// the unregister call's context ends only once nothing else can move
	uctx, ucancel := context.WithCancel(context.Background())
	go func() {
		zzverif.Daemon()
		zzverif.Quiesce()
		ucancel()
	}()
	returned := make(chan struct{})
	go func() {
		defer close(returned)
		_ = u(uctx)
	}()
	if zzverif.Choose("shutdown", 2) == 1 {
		src.wa.Done(ctx)
	} else {
		cancel()
	}
	<-returned
	_ = u(uctx) // and once more after shutdown
	zzverif.Quiesce()
	if !stuck {
		zzverif.Assert(zzverif.NumParked() == 0, "C08 background goroutines are still alive after shutdown: "+zzverif.ParkedDesc())
	}
	zzverif.Reached("c08-pending-unreg-end")
}

// hcfgL has a user-declared pointer leaf: a source value carrying a pointer of another type for it
// cannot be stacked (compose reports "type *string is not assignable to *int").
type hcfgL struct {
	A     int64
	Limit *int
}

// HarnessC08StackError: a watcher reports a value that cannot be stacked onto the config type: the
// reporter gets an error, OnWatchedError hears about it (it is withheld only while the delay is
// in force *and* the suppress option is set), nothing panics, the view is unchanged and later
// reports are still served.
func HarnessC08StackError() {
	flags := zzverif.Choose("flags", 4)
	delay, suppress := flags&1 != 0, flags&2 != 0
	lim := 5
	def := hcfgL{Limit: &lim}
	var st *Type
	var swa WatchArgs
	src := &c03ssrc{mk: func(t *Type) reflect.Value { return reflect.New(t.Type()).Elem() }}
	ctx, cancel := context.WithCancel(context.Background())
	defer cancel()
	nErr, nNew := 0, 0
	p := Params[hcfgL]{
		OnNewConfig:    func(context.Context, *hcfgL, *hcfgL) { nNew++ },
		OnWatchedError: func(context.Context, error, *hcfgL, *hcfgL) { nErr++ },
	}
	p.DelayInitialVerification = delay
	p.CallGlobalCallbacksAfterVerificationEnabled = suppress
	d, err := p.Config(ctx, &def, src)
	if err != nil {
		zzverif.Fail("C04 Config failed on a valid stack")
		return
	}
	st, swa = src.t, src.wa
	s := "not an int"
	a := int64(3)
	wrong := reflect.ValueOf(&struct {
		A     *int64
		Limit *string
	}{&a, &s})
	blocking := zzverif.Choose("blocking", 2) == 1
	if blocking {
		e := swa.BlockingReportNewValue(ctx, wrong)
		zzverif.Assert(e != nil, "C07 a blocking report of a value that cannot be stacked returned nil")
	} else {
		e := swa.ReportNewValue(ctx, wrong)
		zzverif.Assert(e == nil, "C08 ReportNewValue failed with a live context")
	}
	zzverif.Quiesce()
	zzverif.Assert(d.View().A == 0 && *d.View().Limit == 5, "C04 a value that cannot be stacked changed the view")
	want := 1
	if delay && suppress {
		want = 0
	}
	zzverif.Assert(nErr == want, "C09 OnWatchedError delivery for a stacking failure does not match the suppression rule (withheld only while delayed and suppressing)")
	good := reflect.New(st.Type()).Elem()
	four := int64(4)
	good.FieldByName("A").Set(reflect.ValueOf(&four))
	e2 := swa.BlockingReportNewValue(ctx, good)
	zzverif.Assert(e2 == nil && d.View().A == 4, "C08 after a stacking failure new configs are no longer installed")
	zzverif.Reached("c08-stackerr-end")
}

// hvsrc is a watching source implemented with value receivers on a struct that holds a slice: a
// perfectly good Source whose dynamic type is not comparable.
type hvstate struct {
	t  *Type
	wa WatchArgs
}

type hvsrc struct {
	tags []string
	st   *hvstate
}

func (s hvsrc) Value(ctx context.Context, t *Type) (reflect.Value, error) {
	return mkValue(t, hval{setA: true, a: 0}), nil
}

func (s hvsrc) Watch(ctx context.Context, t *Type, wa WatchArgs) error {
	s.st.t, s.st.wa = t, wa
	return nil
}

// HarnessC08UncomparableSource: reports, an error report and Done from a watching source of an
// uncomparable dynamic type (next to an ordinary one) neither crash the monitor nor get lost.
func HarnessC08UncomparableSource() {
	verifyLog = nil
	def := hcfg{}
	st := &hvstate{}
	vs := hvsrc{tags: []string{"x"}, st: st}
	other := &hwsrc{hsrc{name: "s1", init: hval{setB: true, b: 0}}}
	ctx, cancel := context.WithCancel(context.Background())
	defer cancel()
	var d *Dials[hcfg]
	var err error
	if zzverif.Choose("order", 2) == 0 {
		d, err = Config(ctx, &def, vs, other)
	} else {
		d, err = Config(ctx, &def, other, vs)
	}
	if err != nil {
		zzverif.Fail("C04 Config failed on a valid stack")
		return
	}
	e := st.wa.BlockingReportNewValue(ctx, mkValue(st.t, hval{setA: true, a: 5}))
	zzverif.Assert(e == nil && d.View().A == 5, "C08 a report from a watching source of an uncomparable type was not installed")
	e = other.wa.BlockingReportNewValue(ctx, mkValue(other.t, hval{setB: true, b: 6}))
	zzverif.Assert(e == nil && d.View().B == 6 && d.View().A == 5, "C05 the view differs from a fresh stack of the latest reported values")
	zzverif.Assert(st.wa.ReportError(ctx, errInvalid) == nil, "C08 ReportError failed with a live context")
	st.wa.Done(ctx)
	zzverif.Quiesce()
	e = other.wa.BlockingReportNewValue(ctx, mkValue(other.t, hval{setB: true, b: 7}))
	zzverif.Assert(e == nil && d.View().B == 7, "C08 after one watcher finished the other's update was not installed")
	zzverif.Reached("c08-uncomparable-end")
}

// HarnessC08EventsConsumer: a goroutine consuming Events() while reports arrive faster than it
// reads never wedges the monitor: every report is installed, shutdown leaves nothing behind.
func HarnessC08EventsConsumer() {
	verifyLog = nil
	def := hcfg{}
	src := &hwsrc{hsrc{name: "s0", init: hval{setA: true, a: 0}}}
	ctx, cancel := context.WithCancel(context.Background())
	d, err := Config(ctx, &def, src)
	if err != nil {
		zzverif.Fail("C04 Config failed on a valid stack")
		cancel()
		return
	}
	cctx, ccancel := context.WithCancel(ctx)
	go func() {
		zzverif.Daemon()
		zzverif.Quiesce()
		ccancel()
	}()
	consumed := make(chan struct{})
	go func() {
		defer close(consumed)
		for i := 0; i < 2; i++ {
			select {
			case <-d.Events():
			case <-cctx.Done():
				return
			}
		}
	}()
	for i := 1; i <= 3; i++ {
		e := src.wa.BlockingReportNewValue(ctx, mkValue(src.t, hval{setA: true, a: int64(i)}))
		zzverif.Assert(e == nil && d.View().A == int64(i), "C08 a report was not installed while Events() is being consumed")
	}
	<-consumed
	cancel()
	zzverif.Quiesce()
	zzverif.Assert(zzverif.NumParked() == 0, "C08 background goroutines are still alive after shutdown: "+zzverif.ParkedDesc())
	zzverif.Reached("c08-events-end")
}
