package ez

// C18: defaults < file < environment < flags, verified once on the full stack.

import (
	"context"
	"errors"
	"io"
	"reflect"
	"strconv"

	"github.com/vimeo/dials"
	dflag "github.com/vimeo/dials/sources/flag"
	"github.com/vimeo/dials/zzverif"
)

type c18cfg struct {
	Cfg      string `dials:"cfgfile"`
	A        int8
	B        int8
	FromFile bool // only the file sets this: a config without it is the file-less intermediate
	Bad      bool
	// a section with a non-nil default: a file version may set a leaf in it and a later one drop it
	DB *c18db
	// an untagged leaf whose name ends in a pluralised initialism: only the environment sets it
	MaxIDs int8
}

type c18db struct {
	Host string
}

var c18verified []c18cfg
var c18needFile bool
var errC18 = errors.New("c18: invalid")

func (c *c18cfg) ConfigPath() (string, bool) { return c.Cfg, c.Cfg != "" }

func (c *c18cfg) Verify() error {
	c18verified = append(c18verified, *c)
	if c.Bad || (c18needFile && !c.FromFile) {
		return errC18
	}
	return nil
}

// c18layer: which leaves a layer sets
type c18layer struct {
	setA, setB, setBad, setCfg bool
	a, b                       int8
	cfg                        string
	fromFile                   bool
	setHost                    bool
}

func c18fill(t reflect.Type, l c18layer) reflect.Value {
	out := reflect.New(t).Elem()
	set := func(name string, v interface{}) {
		f := out.FieldByName(name)
		p := reflect.New(f.Type().Elem())
		p.Elem().Set(reflect.ValueOf(v))
		f.Set(p)
	}
	if l.setA {
		set("A", l.a)
	}
	if l.setB {
		set("B", l.b)
	}
	if l.setBad {
		set("Bad", true)
	}
	if l.setCfg {
		set("Cfg", l.cfg)
	}
	if l.fromFile {
		set("FromFile", true)
	}
	if l.setHost {
		f := out.FieldByName("DB")
		db := reflect.New(f.Type().Elem())
		h := "file-host"
		db.Elem().FieldByName("Host").Set(reflect.ValueOf(&h))
		f.Set(db)
	}
	return out
}

type c18flagSrc struct{ l c18layer }

func (s *c18flagSrc) Value(ctx context.Context, t *dials.Type) (reflect.Value, error) {
	return c18fill(t.Type(), s.l), nil
}

// c18decoder ignores the bytes and fills the (translated) type it is handed.
type c18decoder struct {
	l   c18layer
	err error
}

func (d *c18decoder) Decode(r io.Reader, t *dials.Type) (reflect.Value, error) {
	if d.err != nil {
		return reflect.Value{}, d.err
	}
	return c18fill(t.Type(), d.l), nil
}

// symbolic-only replacement of the file source: hands the decoder an empty reader
type c18file struct {
	dec   dials.Decoder
	watch bool
	t     *dials.Type
	wa    dials.WatchArgs
}

func (f *c18file) Value(ctx context.Context, t *dials.Type) (reflect.Value, error) {
	return f.dec.Decode(emptyReader{}, t)
}

type emptyReader struct{}

func (emptyReader) Read(p []byte) (int, error) { return 0, io.EOF }

type c18watchFile struct{ c18file }

func (f *c18watchFile) Watch(ctx context.Context, t *dials.Type, wa dials.WatchArgs) error {
	f.t, f.wa = t, wa
	return nil
}

var c18gotPath string
var c18lastFile *c18watchFile

//verif:stub github.com/vimeo/dials/ez.fileSource
func stubFileSource(cfgPath string, decoder dials.Decoder, watch bool) (dials.Source, error) {
	c18gotPath = cfgPath
	if watch {
		c18lastFile = &c18watchFile{c18file{dec: decoder, watch: true}}
		return c18lastFile, nil
	}
	return &c18file{dec: decoder}, nil
}

func c18run(watch bool) {
	c18verified = nil
	c18gotPath = ""
	for _, v := range []string{"CFGFILE", "A", "B", "BAD", "FROM_FILE", "MAX_IDS", "MAX_I_DS"} {
		zzverif.Unsetenv(v)
	}
	defer func() {
		for _, v := range []string{"CFGFILE", "A", "B", "BAD", "FROM_FILE", "MAX_IDS", "MAX_I_DS"} {
			zzverif.Unsetenv(v)
		}
	}()
	path := zzverif.TempFile("{}")
	// where the config path comes from: 0 nowhere (no file), 1 default, 2 environment, 3 flag
	pathSrc := zzverif.Choose("pathsrc", 4)
	// leaf A: any subset of {file, env, flag}; leaf B: file and/or flag
	aSub := zzverif.Choose("aSub", 8)
	bSub := zzverif.Choose("bSub", 4)
	aDef, aFile, aEnv, aFlag := int8(1), int8(2), int8(3), int8(4)
	if !watch && zzverif.Choose("aflagval", 2) == 1 {
		aFlag = aDef // a flag explicitly given with the template's own value still wins over lower layers
	}
	bDef, bFile, bFlag := int8(11), int8(12), int8(14)
	badIn := zzverif.Choose("bad", 3) // 0 valid, 1 file makes it invalid, 2 flag makes it invalid
	c18needFile = zzverif.Choose("needfile", 2) == 1
	fileErr := zzverif.Choose("fileerr", 2) == 1

	def := c18cfg{A: aDef, B: bDef, DB: &c18db{Host: "default-host"}}
	if pathSrc == 1 {
		def.Cfg = path
	}
	if pathSrc == 2 {
		zzverif.Setenv("CFGFILE", path)
	}
	if aSub&2 != 0 {
		zzverif.Setenv("A", "3")
	}
	zzverif.Setenv("MAX_IDS", "5")
	fl := c18layer{setA: aSub&4 != 0, a: aFlag, setB: bSub&2 != 0, b: bFlag, setBad: badIn == 2}
	if pathSrc == 3 {
		fl.setCfg, fl.cfg = true, path
	}
	dec := &c18decoder{l: c18layer{setA: aSub&1 != 0, a: aFile, setB: bSub&1 != 0, b: bFile, setBad: badIn == 1, fromFile: true, setHost: watch}}
	if fileErr {
		dec.err = errC18
	}
	nNew, nErr := 0, 0
	// the real dials flag source (standard library flag package) on an explicit argument list
	var args []string
	if fl.setA {
		args = append(args, "-a", strconv.Itoa(int(aFlag)))
	}
	if fl.setB {
		args = append(args, "-b=14")
	}
	if fl.setBad {
		args = append(args, "-bad")
	}
	if fl.setCfg {
		args = append(args, "-cfgfile", fl.cfg)
	}
	tmpl := def
	flagSrc, flagErr := dflag.NewSetWithArgs(dflag.DefaultFlagNameConfig(), &tmpl, args)
	if flagErr != nil {
		zzverif.Fail("C18 registering flags failed")
		return
	}
	// the flag source handed to ez may itself be a watching source (ez does not care)
	wflag := &c18wflag{inner: flagSrc}
	params := Params[c18cfg]{
		FlagSource:      wflag,
		WatchConfigFile: watch,
		OnNewConfig:     func(context.Context, *c18cfg, *c18cfg) { nNew++ },
		OnWatchedError:  func(context.Context, error, *c18cfg, *c18cfg) { nErr++ },
	}
	ctx, cancel := context.WithCancel(context.Background())
	defer cancel()
	d, err := ConfigFileEnvFlagDecoderFactoryParams(ctx, &def, func(p string, _ Params[c18cfg]) dials.Decoder { return dec }, params)
	hasFile := pathSrc != 0
	// expected full stack
	wantA, wantB := aDef, bDef
	if hasFile && aSub&1 != 0 {
		wantA = aFile
	}
	if aSub&2 != 0 {
		wantA = aEnv
	}
	if aSub&4 != 0 {
		wantA = aFlag
	}
	if hasFile && bSub&1 != 0 {
		wantB = bFile
	}
	if bSub&2 != 0 {
		wantB = bFlag
	}
	wantBad := badIn == 2 || (hasFile && badIn == 1)
	wantInvalid := wantBad || (c18needFile && !hasFile)
	if hasFile && fileErr {
		zzverif.Assert(err != nil, "C18 a failing file source did not fail the ez entry point")
		zzverif.Reached("c18-file-error")
		return
	}
	// Verify ran only on the fully stacked config
	for _, v := range c18verified {
		if hasFile {
			zzverif.Assert(v.FromFile, "C18 Verify ran on the file-less intermediate config")
		}
		zzverif.Assert(v.A == wantA && v.B == wantB, "C18 Verify ran on something other than the fully stacked config")
	}
	if err != nil {
		zzverif.Assert(wantInvalid, "C18 the ez entry point failed although the fully stacked config verifies")
		zzverif.Assert(errors.Is(err, errC18), "C18 the entry point's error is not the Verify error")
		zzverif.Reached("c18-verify-error")
		return
	}
	zzverif.Assert(!wantInvalid, "C18 the ez entry point succeeded although the fully stacked config fails Verify")
	zzverif.Assert(len(c18verified) >= 1, "C18 Verify never ran on the full stack")
	if hasFile && zzverif.Symbolic() {
		zzverif.Assert(c18gotPath == path, "C18 the config file path was not the one ConfigPath returns on defaults+environment+flags")
	}
	got := d.View()
	zzverif.Assert(got.A == wantA && got.B == wantB, "C18 the first visible config is not defaults < file < environment < flags")
	zzverif.Assert(got.MaxIDs == 5, "C18 the environment layer is missing for an untagged leaf (MaxIDs, variable MAX_IDS)")
	zzverif.Assert(got.FromFile == hasFile, "C18 the file layer is missing from (or wrongly present in) the first visible config")
	wantHost := "default-host"
	if hasFile && watch {
		wantHost = "file-host"
	}
	zzverif.Assert(got.DB != nil && got.DB.Host == wantHost, "C18 a leaf inside a section with a non-nil default is not defaults < file")
	// neither Events nor the global callbacks expose the intermediate config
	select {
	case ev := <-d.Events():
		_ = ev
		zzverif.Fail("C18 Events() exposes a config although the file never changed after the entry point returned")
	default:
	}
	zzverif.Quiesce()
	zzverif.Assert(nNew == 0 && nErr == 0, "C18 a global callback fired for the intermediate config")
	if watch && hasFile && zzverif.Symbolic() && c18lastFile != nil && c18lastFile.wa != nil {
		// a later file change re-stacks under the same precedence
		e := c18lastFile.wa.BlockingReportNewValue(ctx, c18fill(c18lastFile.t.Type(), c18layer{setA: true, a: 42, setB: true, b: 43, fromFile: true}))
		zzverif.Assert(e == nil, "C18 a later file change was rejected")
		g2 := d.View()
		wa2, wb2 := int8(42), int8(43)
		if aSub&2 != 0 {
			wa2 = aEnv
		}
		if aSub&4 != 0 {
			wa2 = aFlag
		}
		if bSub&2 != 0 {
			wb2 = bFlag
		}
		zzverif.Assert(g2.A == wa2 && g2.B == wb2, "C18 a later file change did not re-stack as defaults < file < environment < flags")
		zzverif.Assert(g2.DB != nil && g2.DB.Host == "default-host", "C18 a leaf that a later file version stopped setting did not fall back to its default")
		zzverif.Quiesce()
		zzverif.Assert(nNew == 1, "C18 OnNewConfig did not fire for a file change after the entry point returned")
	}
	if !watch && wflag.wa != nil {
		// the watching flag source reports a new value after the entry point returned: it is
		// stacked on top, verified, and announced through the callbacks handed to ez
		before := nNew
		e := wflag.wa.BlockingReportNewValue(ctx, c18fill(wflag.t.Type(), c18layer{setA: true, a: 55}))
		zzverif.Assert(e == nil && d.View().A == 55, "C18 an update from a watching flag source was not stacked on top")
		zzverif.Quiesce()
		zzverif.Assert(nNew == before+1, "C18 OnNewConfig did not fire for a change after the entry point returned (file watching off, watching flag source)")
	}
	zzverif.Reached("c18-end")
}

// c18wflag makes the flag source a watching source.
type c18wflag struct {
	inner dials.Source
	t     *dials.Type
	wa    dials.WatchArgs
}

func (s *c18wflag) Value(ctx context.Context, t *dials.Type) (reflect.Value, error) {
	return s.inner.Value(ctx, t)
}

func (s *c18wflag) Watch(ctx context.Context, t *dials.Type, wa dials.WatchArgs) error {
	s.t, s.wa = t, wa
	return nil
}

func HarnessC18NoWatch() { c18run(false) }
func HarnessC18Watch()   { c18run(true) }
