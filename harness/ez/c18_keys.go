package ez

// C18/C14 through the ez file chain: the file layer matches keys by the (re-cased) `dials` tag
// of the type the decoder is handed, so a leaf can be named in the file by its primary or its
// alias name in the file's casing; both together are an error.

import (
	"context"
	"io"
	"reflect"

	"github.com/vimeo/dials"
	dflag "github.com/vimeo/dials/sources/flag"
	"github.com/vimeo/dials/tagformat/caseconversion"
	"github.com/vimeo/dials/zzverif"
)

type c18kcfg struct {
	Cfg        string `dials:"CfgPath"`
	ListenAddr string `dials:"ListenAddr" dialsalias:"BindAddr"`
	MaxConns   int8   `dials:"MaxConns" dialsalias:"ConnLimit"`
	LogLevel   string `dials:"LogLevel"`
	// a nested section with a leaf ahead of an inner struct (set through the environment only)
	Backend c18kbackend `dials:"Backend"`
	// a set: the file chain presents it to the decoder as a list
	Allowed map[string]struct{} `dials:"Allowed" dialsalias:"Whitelist"`
	// an aliased list of sections
	Backends []c18kpeer `dials:"Backends" dialsalias:"Servers"`
}

type c18kpeer struct {
	Addr string `dials:"Addr"`
}

// c18klist stands for a list of n sections in the file (each with addr = "file-peer")
type c18klist struct{ n int }

type c18kbackend struct {
	Port int16
	TLS  struct{ Cert string }
	Name string
}

func (c *c18kcfg) ConfigPath() (string, bool) { return c.Cfg, c.Cfg != "" }

// c18keydec is a decoder like the JSON/YAML/TOML ones in the one respect that matters here: it
// assigns the file's key/value pairs to the fields whose `dials` tag equals the key.
type c18keydec struct{ kv map[string]interface{} }

func (d *c18keydec) Decode(r io.Reader, t *dials.Type) (reflect.Value, error) {
	out := reflect.New(t.Type()).Elem()
	for i := 0; i < out.NumField(); i++ {
		sf := out.Type().Field(i)
		v, ok := d.kv[sf.Tag.Get("dials")]
		if !ok {
			continue
		}
		f := out.Field(i)
		if l, isList := v.(c18klist); isList {
			sl := reflect.MakeSlice(f.Type(), l.n, l.n)
			for j := 0; j < l.n; j++ {
				el := sl.Index(j)
				if el.Kind() == reflect.Ptr {
					el.Set(reflect.New(el.Type().Elem()))
					el = el.Elem()
				}
				a := "file-peer"
				if el.Field(0).Kind() == reflect.Ptr {
					el.Field(0).Set(reflect.ValueOf(&a))
				} else {
					el.Field(0).SetString(a)
				}
			}
			f.Set(sl)
			continue
		}
		if f.Kind() == reflect.Slice {
			f.Set(reflect.ValueOf(v).Convert(f.Type()))
			continue
		}
		p := reflect.New(f.Type().Elem())
		p.Elem().Set(reflect.ValueOf(v).Convert(f.Type().Elem()))
		f.Set(p)
	}
	return out, nil
}

func HarnessC18FileKeys() {
	for _, v := range []string{"CFG_PATH", "LISTEN_ADDR", "BIND_ADDR", "MAX_CONNS", "CONN_LIMIT", "LOG_LEVEL", "BACKEND_PORT", "BACKEND_TLS_CERT", "BACKEND_NAME", "ALLOWED", "WHITELIST"} {
		zzverif.Unsetenv(v)
	}
	defer zzverif.Unsetenv("MAX_CONNS")
	defer zzverif.Unsetenv("BACKEND_PORT")
	zzverif.Setenv("BACKEND_PORT", "77")
	path := zzverif.TempFile("{}")
	// how the file names each aliased leaf: 0 not at all, 1 primary, 2 alias, 3 both
	kv := map[string]interface{}{"log_level": "file-level"}
	pAddr := zzverif.Choose("addr", 4)
	pConns := zzverif.Choose("conns", 4)
	envConns := zzverif.Choose("envconns", 2) == 1
	// the set leaf: 0 not in the file; 1 primary key with one member; 2 alias key with the
	// explicitly empty list; 3 primary key with the empty list and alias key with a member
	pAllowed := zzverif.Choose("allowed", 4)
	// the list of sections: 0 not in the file; 1 primary key, one section; 2 alias key with the
	// explicitly empty list; 3 primary key with one section and alias key with the empty list
	pBackends := zzverif.Choose("backends", 4)
	switch pBackends {
	case 1:
		kv["backends"] = c18klist{1}
	case 2:
		kv["servers"] = c18klist{0}
	case 3:
		kv["backends"] = c18klist{1}
		kv["servers"] = c18klist{0}
	}
	conns := zzverif.Int8("conns_v")
	if pAddr&1 != 0 {
		kv["listen_addr"] = "file-addr"
	}
	if pAddr&2 != 0 {
		kv["bind_addr"] = "file-addr"
	}
	if pConns&1 != 0 {
		kv["max_conns"] = conns
	}
	if pConns&2 != 0 {
		kv["conn_limit"] = conns
	}
	if envConns {
		zzverif.Setenv("MAX_CONNS", "99")
	}
	switch pAllowed {
	case 1:
		kv["allowed"] = []string{"a"}
	case 2:
		kv["whitelist"] = []string{}
	case 3:
		kv["allowed"] = []string{}
		kv["whitelist"] = []string{"b"}
	}
	def := c18kcfg{Cfg: path, ListenAddr: "default-addr", MaxConns: 1, LogLevel: "default-level", Allowed: map[string]struct{}{"d": {}}, Backends: []c18kpeer{{Addr: "default-peer"}}}
	tmpl := def
	flagSrc, flagErr := dflag.NewSetWithArgs(dflag.DefaultFlagNameConfig(), &tmpl, nil)
	if flagErr != nil {
		zzverif.Fail("C18 registering flags failed")
		return
	}
	params := Params[c18kcfg]{
		FlagSource:           flagSrc,
		DialsTagNameDecoder:  caseconversion.DecodeGoCamelCase,
		FileFieldNameEncoder: caseconversion.EncodeLowerSnakeCase,
	}
	ctx, cancel := context.WithCancel(context.Background())
	defer cancel()
	dec := &c18keydec{kv: kv}
	d, err := ConfigFileEnvFlagDecoderFactoryParams(ctx, &def, func(p string, _ Params[c18kcfg]) dials.Decoder { return dec }, params)
	both := pAddr == 3 || pConns == 3 || pAllowed == 3 || pBackends == 3
	if err != nil {
		zzverif.Assert(both, "C18 the ez entry point failed although the file names no leaf under both its names")
		zzverif.Reached("c18-keys-both-error")
		return
	}
	zzverif.Assert(!both, "C14 a leaf named in the file under both its primary and its alias name did not produce an error")
	got := d.View()
	zzverif.Assert(got.Backend.Port == 77 && got.Backend.Name == "", "C18 a nested leaf set only by the environment is missing from the first visible config")
	zzverif.Assert(got.LogLevel == "file-level", "C18 an unaliased leaf named in the file's casing did not get the file's value")
	if pAddr != 0 {
		zzverif.Assert(got.ListenAddr == "file-addr", "C18 the file layer is missing for a leaf the file names by its primary or alias name (in the file's casing)")
	} else {
		zzverif.Assert(got.ListenAddr == "default-addr", "C18 a leaf the file does not name lost its default")
	}
	switch {
	case envConns:
		zzverif.Assert(got.MaxConns == 99, "C18 the environment did not override the file")
	case pConns != 0:
		zzverif.Assert(got.MaxConns == conns, "C18 the file layer is missing for a leaf the file names by its primary or alias name (in the file's casing)")
	default:
		zzverif.Assert(got.MaxConns == 1, "C18 a leaf the file does not name lost its default")
	}
	switch pAllowed {
	case 0:
		_, hasD := got.Allowed["d"]
		zzverif.Assert(len(got.Allowed) == 1 && hasD, "C18 a set leaf the file does not name lost its default")
	case 1:
		_, hasA := got.Allowed["a"]
		zzverif.Assert(len(got.Allowed) == 1 && hasA, "C18 the file layer is missing for a set leaf the file names")
	case 2:
		zzverif.Assert(len(got.Allowed) == 0, "C18 an explicitly empty list in the file did not override the default set (the file layer is missing for that leaf)")
	}
	switch pBackends {
	case 0:
		zzverif.Assert(len(got.Backends) == 1 && got.Backends[0].Addr == "default-peer", "C18 a list of sections the file does not name lost its default")
	case 1:
		zzverif.Assert(len(got.Backends) == 1 && got.Backends[0].Addr == "file-peer", "C18 the file layer is missing for a list of sections the file names")
	case 2:
		zzverif.Assert(len(got.Backends) == 0, "C18 an explicitly empty list of sections in the file (under the alias name) did not override the default (the file layer is missing for that leaf)")
	}
	zzverif.Reached("c18-keys-end")
}
