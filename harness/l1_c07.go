package dials

import (
	"context"
	"errors"

	"github.com/vimeo/dials/zzverif"
)

// c07scenario: a blocking report whose context is cancelled at an arbitrary moment (before
// submission, between submission and installation, after), optionally racing with a plain
// report from a second source; afterwards the monitor must still serve a second blocking report.
func c07scenario(second bool) {
	verifyLog = nil
	def := hcfg{P: &hsub{X: 5}}
	s0 := &hwsrc{hsrc{name: "s0", init: hval{setA: true, a: 0}}}
	s1 := &hwsrc{hsrc{name: "s1", init: hval{setB: true, b: 0}}}
	ctx, cancel := context.WithCancel(context.Background())
	defer cancel()
	d, err := Config(ctx, &def, s0, s1)
	if err != nil {
		zzverif.Fail("C04 Config failed on a valid stack")
		return
	}
	rctx, rcancel := context.WithCancel(ctx)
	go func() {
		rcancel()
	}()
	otherDone := make(chan struct{})
	if second {
		go func() {
			defer close(otherDone)
			_ = s1.wa.ReportNewValue(ctx, mkValue(s1.t, hval{setB: true, b: 7}))
		}()
	} else {
		close(otherDone)
	}
	bad := zzverif.Bool("bad")
	before, bser := d.ViewVersion()
	rerr := s0.wa.BlockingReportNewValue(rctx, mkValue(s0.t, hval{setA: true, a: 5, setBad: true, bad: bad, setPX: true, px: 50}))
	after, aser := d.ViewVersion()
	if bad {
		zzverif.Assert(before.P != nil && before.P.X == 5 && after.P != nil && after.P.X == 5, "C07 a rejected value was written into the config the view points at")
	}
	switch {
	case rerr == nil:
		zzverif.Assert(!bad, "C07 a blocking report returned nil for a value that fails Verify")
		zzverif.Assert(after.A == 5 && aser.s > bser.s, "C07 a blocking report returned nil before its value was stacked")
	case errors.Is(rerr, errInvalid):
		zzverif.Assert(bad, "C07 a blocking report of a valid value returned the Verify error")
		if !second {
			zzverif.Assert(after == before && aser.s == bser.s, "C07 a rejected blocking report changed the view")
		}
		zzverif.Assert(after.A != 5, "C07 a rejected value is visible")
	default:
		zzverif.Assert(errors.Is(rerr, context.Canceled), "C07 a blocking report returned an error that is neither the stacking error nor the context's")
	}
	<-otherDone
	// the monitor must not be left blocked on the first caller: a second blocking report with a
	// live context completes and is installed
	err2 := s0.wa.BlockingReportNewValue(ctx, mkValue(s0.t, hval{setA: true, a: 9}))
	zzverif.Assert(err2 == nil, "C07 a later blocking report failed")
	zzverif.Assert(d.View().A == 9, "C07 a later blocking report was not stacked")
	// and each later report gets its own verdict, not one left over from an earlier report
	v3, s3 := d.ViewVersion()
	err3 := s0.wa.BlockingReportNewValue(ctx, mkValue(s0.t, hval{setA: true, a: 11, setBad: true, bad: true}))
	zzverif.Assert(err3 != nil && errors.Is(err3, errInvalid), "C04 a blocking report of an invalid value did not return the Verify error (after an earlier report was abandoned)")
	v4, s4 := d.ViewVersion()
	zzverif.Assert(v4 == v3 && s4.s == s3.s, "C04 a rejected update changed the view or the serial")
	zzverif.Reached("c07-end")
}

// HarnessC07Quick: one blocking report racing with its context's cancellation.
func HarnessC07Quick() { c07scenario(false) }

// HarnessC07Second: plus a plain report from another source.
func HarnessC07Second() { c07scenario(true) }
