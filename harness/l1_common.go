package dials

// Common harness pieces for the concurrency properties (C04-C09): a small config type with a
// symbolic validity verdict, and watching/static harness sources that build their values through
// the *Type they are handed, like real sources do.

import (
	"context"
	"errors"
	"reflect"

	"github.com/vimeo/dials/zzverif"
)

// hcfg is the harness config. A and B are set by source 0 and source 1 respectively; Bad makes
// Verify fail (so "valid" is an arbitrary function of the stacked values).
type hcfg struct {
	A   int64
	B   int64
	Bad bool
	// an unexported field ahead of the reference-bearing one: copying must not stop here
	hidden int8
	P      *hsub // pointer-to-struct section (non-nil in some defaults)
	// Derived is filled in by Verify (a normalising, pointer-receiver Verify): A+1
	Derived int64 `dials:"-"`
}

type hsub struct {
	X int64
}

var errInvalid = errors.New("hcfg: invalid")

// verifyLog records Verify calls (ghost state).
var verifyLog []hcfg

// verifyExternalFail makes Verify fail for a reason outside the config (a dependency that is
// down, say); only set around calls that are documented not to verify.
var verifyExternalFail bool

func (c *hcfg) Verify() error {
	verifyLog = append(verifyLog, *c)
	c.Derived = c.A + 1
	if c.Bad || verifyExternalFail {
		return errInvalid
	}
	return nil
}

// hval is what a source reports: which fields it sets.
type hval struct {
	setA, setB, setBad bool
	a, b               int64
	bad                bool
	setPX              bool
	px                 int64
}

func mkValue(t *Type, v hval) reflect.Value {
	out := reflect.New(t.Type()).Elem()
	if v.setA {
		x := v.a
		out.FieldByName("A").Set(reflect.ValueOf(&x))
	}
	if v.setB {
		x := v.b
		out.FieldByName("B").Set(reflect.ValueOf(&x))
	}
	if v.setBad {
		x := v.bad
		out.FieldByName("Bad").Set(reflect.ValueOf(&x))
	}
	if v.setPX {
		pf := out.FieldByName("P")
		sub := reflect.New(pf.Type().Elem())
		x := v.px
		sub.Elem().FieldByName("X").Set(reflect.ValueOf(&x))
		pf.Set(sub)
	}
	return out
}

// hsrc is a harness source; watching if watch is set.
type hsrc struct {
	name    string
	init    hval
	initErr error
	t       *Type
	wa      WatchArgs
	watchErr error
}

func (s *hsrc) Value(ctx context.Context, t *Type) (reflect.Value, error) {
	if s.initErr != nil {
		return reflect.Value{}, s.initErr
	}
	return mkValue(t, s.init), nil
}

type hwsrc struct {
	hsrc
}

func (s *hwsrc) Watch(ctx context.Context, t *Type, wa WatchArgs) error {
	s.t = t
	s.wa = wa
	return s.watchErr
}

var _ Source = (*hsrc)(nil)
var _ Watcher = (*hwsrc)(nil)

// HarnessL1Smoke: static stacking through the real Config/compose/overlay/deep-copy.
func HarnessL1Smoke() {
	a0 := zzverif.Int64("a0")
	a1 := zzverif.Int64("a1")
	b1 := zzverif.Int64("b1")
	setA1 := zzverif.Bool("setA1")
	def := &hcfg{A: zzverif.Int64("defA"), B: zzverif.Int64("defB")}
	defA, defB := def.A, def.B
	s0 := &hsrc{name: "s0", init: hval{setA: true, a: a0}}
	s1 := &hsrc{name: "s1", init: hval{setA: setA1, a: a1, setB: true, b: b1}}
	d, err := Config(context.Background(), def, s0, s1)
	zzverif.Assert(err == nil, "Config failed")
	if err != nil {
		return
	}
	v := d.View()
	if setA1 {
		zzverif.Assert(v.A == a1, "smoke: A should come from the last source that set it")
	} else {
		zzverif.Assert(v.A == a0, "smoke: A should come from source 0")
	}
	zzverif.Assert(v.B == b1, "smoke: B from source 1")
	zzverif.Assert(def.A == defA && def.B == defB, "smoke: defaults modified")
	zzverif.Reached("smoke-end")
}
