package dials

import (
	"context"
	"errors"
	"reflect"
	"strconv"

	"github.com/vimeo/dials/zzverif"
)

// ghost logs filled by the global callbacks (they run on the callback goroutine)
type cbLog struct {
	newCfg  []struct{ old, new *hcfg }
	watched []struct {
		err      error
		old, new *hcfg
	}
	inCB bool
}

func (l *cbLog) enter(what string) {
	zzverif.Assert(!l.inCB, "C06 callbacks overlap: "+what+" entered while another callback is running")
	l.inCB = true
	zzverif.Yield("in-callback")
}

func (l *cbLog) exit() { l.inCB = false }

func (l *cbLog) params() Params[hcfg] {
	return Params[hcfg]{
		OnNewConfig: func(ctx context.Context, old, new *hcfg) {
			l.enter("OnNewConfig")
			l.newCfg = append(l.newCfg, struct{ old, new *hcfg }{old, new})
			l.exit()
		},
		OnWatchedError: func(ctx context.Context, err error, old, new *hcfg) {
			l.enter("OnWatchedError")
			l.watched = append(l.watched, struct {
				err      error
				old, new *hcfg
			}{err, old, new})
			l.exit()
		},
	}
}

// c04scenario: one watching source, k blocking reports with arbitrary validity, optional
// concurrent reader, all four Skip/Delay combinations.
func c04scenario(k int, reader bool, blocking bool) {
	verifyLog = nil
	log := &cbLog{}
	g := &ghostState{}
	flags := zzverif.Choose("flags", 4)
	skip, delay := flags&1 != 0, flags&2 != 0
	initBad := zzverif.Bool("initBad")
	def := hcfg{P: &hsub{X: zzverif.Int64("defPX")}}
	src := &hwsrc{hsrc{name: "s0", init: hval{setA: true, a: zzverif.Int64("a_init"), setBad: true, bad: initBad}}}
	p := log.params()
	p.SkipInitialVerification = skip
	p.DelayInitialVerification = delay
	ctx, cancel := context.WithCancel(context.Background())
	defer cancel()
	d, err := p.Config(ctx, &def, src)
	mustFail := zzverif.And(initBad, !skip && !delay)
	if err != nil {
		zzverif.Assert(mustFail, "C04 Config failed although the initial stack verifies (or verification was skipped/delayed)")
		zzverif.Assert(errors.Is(err, errInvalid), "C04 Config's error does not wrap the Verify error")
		zzverif.Reached("c04-config-rejected")
		return
	}
	zzverif.Assert(zzverif.Not(mustFail), "C04 Config accepted an initial stack that fails Verify")
	verifying := !delay
	unverifiedInitial := skip || delay
	if delay {
		zzverif.Assert(len(verifyLog) == 0, "C09 Verify was called although verification is delayed")
	}
	done := make(chan struct{})
	if reader {
		go func() {
			defer close(done)
			for i := 0; i < 2; i++ {
				cfg, ser := d.ViewVersion()
				g.observe("ViewVersion", cfg, ser.s, verifying && !(unverifiedInitial && ser.s == 0))
				select {
				case ev := <-d.Events():
					zzverif.Assert(!verifying || !ev.Bad, "C04 Events delivered a config that fails Verify")
				default:
				}
			}
		}()
	} else {
		close(done)
	}
	type exp struct {
		rejected bool
		before   *hcfg
		a        int64
	}
	var exps []exp
	for i := 0; i < k; i++ {
		name := "u" + strconv.Itoa(i)
		v := hval{setA: true, a: zzverif.Int64(name + "_a"), setBad: true, bad: zzverif.Bool(name + "_bad"), setPX: true, px: zzverif.Int64(name + "_px")}
		before, bser := d.ViewVersion()
		beforeA, beforePX := before.A, before.P.X
		var rerr error
		if blocking {
			rerr = src.wa.BlockingReportNewValue(ctx, mkValue(src.t, v))
		} else {
			rerr = src.wa.ReportNewValue(ctx, mkValue(src.t, v))
			zzverif.Assert(rerr == nil, "C08 ReportNewValue failed with a live context")
			zzverif.Quiesce()
		}
		after, aser := d.ViewVersion()
		rejected := verifying && v.bad
		if rejected {
			if blocking {
				zzverif.Assert(rerr != nil, "C04/C07 a blocking report of a value that fails Verify returned nil")
				zzverif.Assert(rerr == nil || errors.Is(rerr, errInvalid), "C04 the blocking report's error does not wrap the Verify error")
			}
			zzverif.Assert(after == before && aser.s == bser.s, "C04 a rejected update changed the view or the serial")
			zzverif.Assert(zzverif.And(before.A == beforeA, before.P.X == beforePX), "C04/C02 a rejected update modified the contents of the installed config")
		} else {
			if blocking {
				zzverif.Assert(rerr == nil, "C07 a blocking report of a valid value returned an error")
			}
			zzverif.Assert(aser.s == bser.s+1, "C05 an installed version's serial is not its predecessor's plus one")
			zzverif.Assert(zzverif.And(zzverif.And(after.A == v.a, after.Bad == v.bad), after.P.X == v.px), "C07 after a successful report the view does not show the reported value")
			zzverif.Assert(zzverif.And(before.A == beforeA, before.P.X == beforePX), "C02 installing a new version modified the previous version")
			g.observe("ViewVersion", after, aser.s, verifying)
		}
		exps = append(exps, exp{rejected, before, v.a})
	}
	<-done
	zzverif.Quiesce()
	// callbacks: one OnWatchedError per rejected update (with current and rejected config), one
	// OnNewConfig per installed one, in order
	ni, wi := 0, 0
	for _, e := range exps {
		if e.rejected {
			if wi < len(log.watched) {
				w := log.watched[wi]
				zzverif.Assert(errors.Is(w.err, errInvalid), "C04 OnWatchedError got an error that is not the Verify error")
				zzverif.Assert(w.old == e.before, "C04 OnWatchedError's old config is not the current one")
				zzverif.Assert(w.new != nil && w.new.A == e.a && w.new.Bad, "C04 OnWatchedError's new config is not the rejected stack")
			}
			wi++
		} else {
			if ni < len(log.newCfg) {
				n := log.newCfg[ni]
				zzverif.Assert(n.old == e.before && n.new.A == e.a, "C06 OnNewConfig arguments are not (predecessor, installed)")
				zzverif.Assert(!verifying || !n.new.Bad, "C04 OnNewConfig delivered a config that fails Verify")
			}
			ni++
		}
	}
	zzverif.Assert(len(log.watched) == wi, "C04 OnWatchedError was not called exactly once per rejected update")
	zzverif.Assert(len(log.newCfg) == ni, "C06 OnNewConfig was not called exactly once per installed version")
	zzverif.Reached("c04-end")
}

// HarnessC04Quick: 2 blocking reports, concurrent reader.
func HarnessC04Quick() { c04scenario(2, true, true) }

// HarnessC04NonBlocking: 2 plain reports, no reader.
func HarnessC04NonBlocking() { c04scenario(2, false, false) }

// HarnessC04Thorough: 3 blocking reports with reader.
func HarnessC04Thorough() { c04scenario(3, true, true) }

// ---- a pointer to an anonymous struct whose fields are all nil-able (its pointerified type is
// the type itself), filled by a static source and by a watcher: rejected updates must not show
// through configs handed out earlier, and a leaf a layer stops setting falls back.

type hcfgN struct {
	Limits *struct {
		Max  *int
		Mode *string
	}
	Bad bool
}

func (c *hcfgN) Verify() error {
	if c.Bad {
		return errInvalid
	}
	return nil
}

func HarnessC04Aliasing() {
	def := hcfgN{}
	mkLimits := func(t *Type, max *int, mode *string, bad bool) reflect.Value {
		out := reflect.New(t.Type()).Elem()
		if max != nil || mode != nil {
			lf := out.FieldByName("Limits")
			l := reflect.New(lf.Type().Elem())
			if max != nil {
				x := *max
				l.Elem().FieldByName("Max").Set(reflect.ValueOf(&x))
			}
			if mode != nil {
				x := *mode
				l.Elem().FieldByName("Mode").Set(reflect.ValueOf(&x))
			}
			lf.Set(l)
		}
		if bad {
			b := true
			out.FieldByName("Bad").Set(reflect.ValueOf(&b))
		}
		return out
	}
	one := 1
	static := &c03ssrc{mk: func(t *Type) reflect.Value { return mkLimits(t, &one, nil, false) }}
	staticOnly := &c01static{build: static.mk}
	watcher := &c03ssrc{mk: func(t *Type) reflect.Value { return mkLimits(t, nil, nil, false) }}
	ctx, cancel := context.WithCancel(context.Background())
	defer cancel()
	d, err := Config(ctx, &def, staticOnly, watcher)
	zzverif.Assert(err == nil, "C04 Config failed on a valid stack")
	if err != nil {
		return
	}
	v0 := d.View()
	zzverif.Assert(v0.Limits != nil && v0.Limits.Max != nil && *v0.Limits.Max == 1 && v0.Limits.Mode == nil, "C01 the initial stack is not defaults < static source < watcher")
	a, b := "a", "b"
	e1 := watcher.wa.BlockingReportNewValue(ctx, mkLimits(watcher.t, nil, &a, false))
	zzverif.Assert(e1 == nil, "C07 a valid blocking report failed")
	v1, s1 := d.ViewVersion()
	zzverif.Assert(v1.Limits != nil && v1.Limits.Mode != nil && *v1.Limits.Mode == "a" && *v1.Limits.Max == 1, "C01 after an update the view is not the stack of the latest values")
	zzverif.Assert(v0.Limits.Mode == nil, "C02 an update wrote through to a config handed out earlier")
	e2 := watcher.wa.BlockingReportNewValue(ctx, mkLimits(watcher.t, nil, &b, true))
	zzverif.Assert(e2 != nil && errors.Is(e2, errInvalid), "C04 a blocking report of an invalid value did not return the Verify error")
	v2, s2 := d.ViewVersion()
	zzverif.Assert(v2 == v1 && s2.s == s1.s, "C04 a rejected update changed the view or the serial")
	zzverif.Assert(v1.Limits.Mode != nil && *v1.Limits.Mode == "a" && !v1.Bad, "C04 a rejected update changed the contents of the visible config")
	e3 := watcher.wa.BlockingReportNewValue(ctx, mkLimits(watcher.t, nil, nil, false))
	zzverif.Assert(e3 == nil, "C07 a valid blocking report failed")
	v3 := d.View()
	zzverif.Assert(v3.Limits != nil && v3.Limits.Mode == nil && v3.Limits.Max != nil && *v3.Limits.Max == 1, "C01 a leaf the upper layer stopped setting did not fall back to the lower layers")
	zzverif.Assert(*v1.Limits.Mode == "a", "C02 a later re-stack changed a config handed out earlier")
	zzverif.Reached("c04-aliasing-end")
}
