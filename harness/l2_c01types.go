package dials

import (
	"time"

	"github.com/vimeo/dials/zzverif"
)

// ---- corpus of config types for C01/C02

type c01T1 struct {
	I   int
	I8  int8
	U16 uint16
	S   string
	B   bool
	D   time.Duration
}

func mkT1() func() *c01T1 {
	v := c01T1{I: zzverif.Int("dI"), I8: zzverif.Int8("dI8"), U16: zzverif.Uint16("dU16"), S: zzverif.Bytes("dS", 1), B: zzverif.Bool("dB"), D: time.Duration(zzverif.Int64("dD"))}
	return func() *c01T1 { c := v; return &c }
}

// skipped fields (unexported, dials:"-", chan, func) before, between and after settable ones
type c01T2 struct {
	a    int
	X    int32
	Skip int `dials:"-"`
	C    chan int
	Y    string
	F    func()
	Z    uint8
	b    string
}

func mkT2() func() *c01T2 {
	ch := make(chan int)
	fn := func() {}
	v := c01T2{a: zzverif.Int("da"), X: zzverif.Int32("dX"), Skip: zzverif.Int("dSkip"), C: ch, Y: zzverif.Bytes("dY", 1), F: fn, Z: zzverif.Byte("dZ"), b: "keep"}
	return func() *c01T2 { c := v; return &c }
}

type c01sub struct {
	V int16
	W string
}

type C01Emb struct {
	E1 int8
}

// nested, pointer-nested (nil or non-nil default) and embedded structs
type c01T3 struct {
	N c01sub
	P *c01sub
	C01Emb
	Q int
}

func mkT3() func() *c01T3 {
	n := c01sub{V: zzverif.Int16("dNV"), W: zzverif.Bytes("dNW", 1)}
	pNonNil := zzverif.Choose("dP", 2) == 1
	pv := c01sub{V: zzverif.Int16("dPV"), W: "w"}
	e := zzverif.Int8("dE1")
	q := zzverif.Int("dQ")
	return func() *c01T3 {
		c := c01T3{N: n, C01Emb: C01Emb{E1: e}, Q: q}
		if pNonNil {
			p := pv
			c.P = &p
		}
		return &c
	}
}

// slices, maps, arrays
type c01key struct {
	N string
	P *int
}

type c01T4 struct {
	S  []int16
	M  map[string]int8
	A  [2]uint8
	SS []string
}

// reference-bearing arrays inside slices, struct map keys holding pointers, pointer to a struct
// whose fields are all nil-able (its pointerified type is identical to the original)
type c01T8 struct {
	AP   [][1]*c01sub
	MK map[c01key]int8
	PN *struct {
		Tags  []int16
		Level *int
	}
}

func mkT8() func() *c01T8 {
	apMode := zzverif.Choose("dAP", 2)
	mkMode := zzverif.Choose("dMK", 2)
	pnMode := zzverif.Choose("dPN", 2)
	v := zzverif.Int16("dAPV")
	kp := zzverif.Int("dKP")
	lv := zzverif.Int("dLevel")
	return func() *c01T8 {
		c := c01T8{}
		if apMode == 1 {
			c.AP = [][1]*c01sub{{&c01sub{V: v, W: "w"}}}
		}
		if mkMode == 1 {
			x := kp
			c.MK = map[c01key]int8{{N: "k", P: &x}: 1}
		}
		if pnMode == 1 {
			l := lv
			c.PN = &struct {
				Tags  []int16
				Level *int
			}{Tags: []int16{7}, Level: &l}
		}
		return &c
	}
}

func mkT4() func() *c01T4 {
	sMode := zzverif.Choose("dS", 3) // nil, empty with spare capacity, one element
	s0 := zzverif.Int16("dS0")
	mMode := zzverif.Choose("dM", 2)
	m0 := zzverif.Int8("dM0")
	a0, a1 := zzverif.Byte("dA0"), zzverif.Byte("dA1")
	return func() *c01T4 {
		c := c01T4{A: [2]uint8{a0, a1}}
		switch sMode {
		case 1:
			c.S = make([]int16, 0, 4)
		case 2:
			c.S = []int16{s0}
		}
		if mMode == 1 {
			c.M = map[string]int8{"k0": m0, "d": 1}
		}
		return &c
	}
}

// user-declared pointers to non-structs
type c01T5 struct {
	PI  *int
	PS  *string
	K   int8
	PI2 *int
}

func mkT5() func() *c01T5 {
	mode := zzverif.Choose("dPI", 3) // nil; own variable; PI and PI2 alias one variable
	pi := zzverif.Int("dPIv")
	k := zzverif.Int8("dK")
	return func() *c01T5 {
		c := c01T5{K: k}
		if mode >= 1 {
			x := pi
			c.PI = &x
			if mode == 2 {
				c.PI2 = &x
			}
		}
		return &c
	}
}

// text-unmarshalable struct (value and pointer)
type c01TU struct {
	A uint8
	B uint8
}

func (t *c01TU) UnmarshalText(b []byte) error { return nil }

type c01T6 struct {
	T  c01TU
	PT *c01TU
	N  int8
}

func mkT6() func() *c01T6 {
	a, b := zzverif.Byte("dTA"), zzverif.Byte("dTB")
	mode := zzverif.Choose("dPT", 2)
	n := zzverif.Int8("dN")
	return func() *c01T6 {
		c := c01T6{T: c01TU{a, b}, N: n}
		if mode == 1 {
			c.PT = &c01TU{b, a}
		}
		return &c
	}
}

// deep nesting with a skipped field inside
type c01T7 struct {
	L1 struct {
		hidden int
		L2     struct {
			V int8
		}
		W uint8
	}
	Z int8
}

func mkT7() func() *c01T7 {
	v, w, z := zzverif.Int8("dV"), zzverif.Byte("dW"), zzverif.Int8("dZ")
	return func() *c01T7 {
		var c c01T7
		c.L1.hidden = 7
		c.L1.L2.V = v
		c.L1.W = w
		c.Z = z
		return &c
	}
}

// HarnessC01T1 ... : two layers over each corpus type.
func HarnessC01T1() { c01run("T1 scalars", mkT1(), 2) }
func HarnessC01T2() { c01run("T2 skipped fields", mkT2(), 2) }
func HarnessC01T3() { c01run("T3 nested/pointer/embedded", mkT3(), 2) }
func HarnessC01T4() { c01run("T4 slices/maps/arrays", mkT4(), 2) }
func HarnessC01T5() { c01run("T5 user pointers", mkT5(), 2) }
func HarnessC01T6() { c01run("T6 text-unmarshalable", mkT6(), 2) }
func HarnessC01T7() { c01run("T7 deep nesting", mkT7(), 2) }
// maps of maps whose entries share inner maps (also with a sibling field), and exported fields
// that dials does not manage (`dials:"-"`) but that hold references
type c01T9 struct {
	MM     map[string]map[string]int8
	Labels map[string]int8
	Keep   map[string]int8 `dials:"-"`
	KeepP  *c01sub         `dials:"-"`
	N      int8
}

func mkT9() func() *c01T9 {
	share := zzverif.Choose("dShare", 3) // Labels: nil; own map; the map that is also MM["x"] and MM["z"]
	sx, sy := zzverif.Int8("dX"), zzverif.Int8("dY")
	keep := zzverif.Choose("dKeep", 2)
	n := zzverif.Int8("dN")
	return func() *c01T9 {
		innerX := map[string]int8{"a": sx}
		innerY := map[string]int8{"b": sy}
		// (the defaults are copied more than once on their way into the view, so the sharing has to
		// survive a first copy: one inner map under three entries)
		c := c01T9{MM: map[string]map[string]int8{"w": innerY, "x": innerX, "y": innerX, "z": innerX}, N: n}
		switch share {
		case 1:
			c.Labels = map[string]int8{"a": sx}
		case 2:
			c.Labels = innerX
		}
		if keep == 1 {
			c.Keep = map[string]int8{"k": 1}
			c.KeepP = &c01sub{V: 3, W: "w"}
		}
		return &c
	}
}

// an exported field that dials skips and that shadows a field of an embedded struct; a
// text-unmarshalable struct with exported reference fields
type C01EmbX struct {
	X int8
	Y string
}

type c01TUrefs struct {
	List []int16
	M    map[string]int8
	P    *int
}

func (t *c01TUrefs) UnmarshalText(b []byte) error { return nil }

type c01T10 struct {
	C01EmbX
	X  int32 `dials:"-"`
	TU c01TUrefs
	N  int8
}

func mkT10() func() *c01T10 {
	x, ox, n := zzverif.Int8("dX"), zzverif.Int32("dOuterX"), zzverif.Int8("dN")
	refs := zzverif.Choose("dRefs", 2)
	pv := zzverif.Int("dP")
	return func() *c01T10 {
		c := c01T10{C01EmbX: C01EmbX{X: x, Y: "y"}, X: ox, N: n}
		if refs == 1 {
			p := pv
			c.TU = c01TUrefs{List: []int16{1, 2}, M: map[string]int8{"k": 3}, P: &p}
		}
		return &c
	}
}

func HarnessC01T10() {
	c01run("T10 skipped field shadowing an embedded field / text-unmarshalable struct with reference fields", mkT10(), 1)
}

func HarnessC01T9() { c01run("T9 maps of maps with shared inner maps / unmanaged exported reference fields", mkT9(), 1) }

// a slice of pointers with spare capacity: live references in the hidden tail
type c01T11 struct {
	Tail []*c01sub // len 1, cap 3
	X    int8
}

func mkT11() func() *c01T11 {
	v := zzverif.Int16("dTailV")
	x := zzverif.Int8("dX")
	return func() *c01T11 {
		known := []*c01sub{{V: v, W: "t0"}, {V: 2, W: "t1"}, {V: 3, W: "t2"}}
		return &c01T11{Tail: known[:1], X: x}
	}
}

func HarnessC01T11() { c01run("T11 slice of pointers with spare capacity", mkT11(), 2) }

func HarnessC01T8() { c01run("T8 arrays in slices / struct keys / all-nilable pointee", mkT8(), 1) }
func HarnessC01T8L2() { c01run("T8 arrays in slices / struct keys / all-nilable pointee", mkT8(), 2) }

// three layers on the types with few leaves
func HarnessC01T2L3() { c01run("T2 skipped fields", mkT2(), 3) }
func HarnessC01T7L3() { c01run("T7 deep nesting", mkT7(), 3) }

// one layer over the bigger types (quick tier)
func HarnessC01T3L1() { c01run("T3 nested/pointer/embedded", mkT3(), 1) }
func HarnessC01T4L1() { c01run("T4 slices/maps/arrays", mkT4(), 1) }
