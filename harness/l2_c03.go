package dials

// C03: cyclic and shared reference graphs are copied safely and faithfully.

import (
	"context"
	"reflect"
	"strconv"

	"github.com/vimeo/dials/zzverif"
)

type c03A struct {
	Val  int64
	P, Q *c03A
}

type c03B struct {
	Val int64
	P   *c03B
	M   map[string]*c03B
}

type c03C struct {
	Val int64
	P   *c03C
	S   []*c03C
	A   [1]*c03C
}

type c03D struct {
	Val    int64
	hidden int // a struct *value* held in an interface keeps its unexported state
	P      *c03D
	I      interface{}
}

type c03DRef *c03D

type c03cfgA struct{ R0, R1 *c03A }
type c03cfgB struct {
	R0, R1 *c03B
	Shared map[string]*c03B
}
type c03cfgC struct {
	R0, R1 *c03C
	// a slice and (possibly) a proper prefix of it, or the same slice again
	All []*c03C
	Pre []*c03C
}
type c03cfgD struct{ R0, R1 *c03D }

// pick chooses nil or one of the nodes for a reference slot.
func c03pick(name string, n int) int { return zzverif.Choose(name, n+1) - 1 }

// c03check runs Config on the cyclic defaults and compares: deep equality (cycle aware), the
// identity relation between the listed reference slots, and freshness.
func c03check[T any](fam string, def *T, slots func(*T) []reflect.Value) {
	// Config itself cannot be used for recursive config types (ptrify.Pointerify does not
	// terminate on them: see HarnessC03ConfigRecursive and known_findings.json), so the graph
	// properties are checked on the deep copier that Config and every re-stack go through.
	got, ok := realDeepCopy(def).Interface().(*T)
	zzverif.Assert(ok && got != nil, "C03 "+fam+": the deep copy has the wrong type")
	if !ok || got == nil {
		return
	}
	zzverif.Assert(reflect.DeepEqual(got, def), "C03 "+fam+": the stacked config is not deeply equal to the supplied graph")
	in, out := slots(def), slots(got)
	zzverif.Assert(len(in) == len(out), "C03 "+fam+": the copied graph has a different shape")
	if len(in) != len(out) {
		return
	}
	for i := range in {
		zzverif.Assert(in[i].IsNil() == out[i].IsNil(), "C03 "+fam+": a nil reference became non-nil or vice versa")
		if in[i].IsNil() || out[i].IsNil() {
			continue
		}
		zzverif.Assert(in[i].Pointer() != out[i].Pointer(), "C03 "+fam+": a reference in the result is not fresh (aliases the input)")
		for j := i + 1; j < len(in); j++ {
			if in[j].IsNil() || out[j].IsNil() || in[i].Type() != in[j].Type() {
				continue
			}
			same := in[i].Pointer() == in[j].Pointer()
			zzverif.Assert(same == (out[i].Pointer() == out[j].Pointer()), "C03 "+fam+": references that were identical in the input are not identical in the result (or vice versa): slots "+strconv.Itoa(i)+","+strconv.Itoa(j))
		}
	}
	zzverif.Reached("c03-end")
}

func c03famA(n int) {
	nodes := make([]*c03A, n)
	for i := range nodes {
		nodes[i] = &c03A{Val: zzverif.Int64("val" + strconv.Itoa(i))}
	}
	get := func(name string) *c03A {
		if k := c03pick(name, n); k >= 0 {
			return nodes[k]
		}
		return nil
	}
	for i, nd := range nodes {
		nd.P = get("n" + strconv.Itoa(i) + "P")
		nd.Q = get("n" + strconv.Itoa(i) + "Q")
	}
	def := &c03cfgA{R0: nodes[0], R1: get("R1")}
	c03check("family A (pointer fields)", def, func(c *c03cfgA) []reflect.Value {
		var out []reflect.Value
		seen := map[*c03A]bool{}
		var walk func(p *c03A, depth int)
		walk = func(p *c03A, depth int) {
			out = append(out, reflect.ValueOf(p))
			if p == nil || seen[p] || depth > 4 {
				return
			}
			seen[p] = true
			walk(p.P, depth+1)
			walk(p.Q, depth+1)
		}
		walk(c.R0, 0)
		walk(c.R1, 0)
		return out
	})
}

func c03famB(n int) {
	nodes := make([]*c03B, n)
	for i := range nodes {
		nodes[i] = &c03B{Val: zzverif.Int64("val" + strconv.Itoa(i))}
	}
	get := func(name string) *c03B {
		if k := c03pick(name, n); k >= 0 {
			return nodes[k]
		}
		return nil
	}
	shared := map[string]*c03B{"x": get("shared_x")}
	for i, nd := range nodes {
		nd.P = get("n" + strconv.Itoa(i) + "P")
		switch zzverif.Choose("n"+strconv.Itoa(i)+"M", 3) {
		case 1:
			nd.M = map[string]*c03B{"k": get("n" + strconv.Itoa(i) + "Mk")}
		case 2:
			nd.M = shared
		}
	}
	def := &c03cfgB{R0: nodes[0], R1: get("R1"), Shared: shared}
	c03check("family B (maps)", def, func(c *c03cfgB) []reflect.Value {
		out := []reflect.Value{reflect.ValueOf(c.R0), reflect.ValueOf(c.R1), reflect.ValueOf(c.Shared), reflect.ValueOf(c.Shared["x"])}
		for _, r := range []*c03B{c.R0, c.R1} {
			if r != nil {
				out = append(out, reflect.ValueOf(r.P), reflect.ValueOf(r.M))
				if r.M != nil {
					out = append(out, reflect.ValueOf(r.M["k"]), reflect.ValueOf(r.M["x"]))
				}
			}
		}
		return out
	})
}

func c03famC(n int) {
	nodes := make([]*c03C, n)
	for i := range nodes {
		nodes[i] = &c03C{Val: zzverif.Int64("val" + strconv.Itoa(i))}
	}
	get := func(name string) *c03C {
		if k := c03pick(name, n); k >= 0 {
			return nodes[k]
		}
		return nil
	}
	for i, nd := range nodes {
		nd.P = get("n" + strconv.Itoa(i) + "P")
		if zzverif.Choose("n"+strconv.Itoa(i)+"S", 2) == 1 {
			nd.S = []*c03C{get("n" + strconv.Itoa(i) + "S0")}
		}
		nd.A[0] = get("n" + strconv.Itoa(i) + "A0")
	}
	def := &c03cfgC{R0: nodes[0], R1: get("R1")}
	def.All = append([]*c03C{}, nodes...)
	def.All = append(def.All, nodes[0])
	switch zzverif.Choose("pre", 4) {
	case 1:
		def.Pre = def.All[:1]
	case 2:
		def.Pre = def.All[:0]
	case 3:
		def.Pre = def.All
	}
	c03check("family C (slices and arrays)", def, func(c *c03cfgC) []reflect.Value {
		out := []reflect.Value{reflect.ValueOf(c.R0), reflect.ValueOf(c.R1)}
		for _, r := range []*c03C{c.R0, c.R1} {
			if r != nil {
				out = append(out, reflect.ValueOf(r.P), reflect.ValueOf(r.A[0]))
				if len(r.S) > 0 {
					out = append(out, reflect.ValueOf(r.S[0]))
				}
			}
		}
		return out
	})
}

func c03famD(n int) {
	nodes := make([]*c03D, n)
	for i := range nodes {
		nodes[i] = &c03D{Val: zzverif.Int64("val" + strconv.Itoa(i))}
	}
	get := func(name string) *c03D {
		if k := c03pick(name, n); k >= 0 {
			return nodes[k]
		}
		return nil
	}
	for i, nd := range nodes {
		nd.P = get("n" + strconv.Itoa(i) + "P")
		switch zzverif.Choose("n"+strconv.Itoa(i)+"I", 9) {
		case 7: // a typed nil map held in the interface stays a nil map
			nd.I = map[string]*c03D(nil)
		case 8: // ... of another type
			nd.I = map[string]int(nil)
		case 5: // a map held in the interface that contains itself (through an interface value)
			m := map[string]interface{}{"v": int64(3)}
			m["self"] = m
			nd.I = m
		case 6: // a pointer of a defined pointer type held in the interface
			nd.I = c03DRef(get("n" + strconv.Itoa(i) + "Ir"))
		case 1: // pointer held in the interface (possibly back to this node, possibly a typed nil)
			nd.I = get("n" + strconv.Itoa(i) + "Ip")
		case 2: // struct value held in the interface
			nd.I = c03D{Val: 7, hidden: 3, P: get("n" + strconv.Itoa(i) + "Is")}
		case 3:
			nd.I = map[string]*c03D{"k": get("n" + strconv.Itoa(i) + "Im")}
		case 4:
			nd.I = []*c03D{get("n" + strconv.Itoa(i) + "Il")}
		}
	}
	def := &c03cfgD{R0: nodes[0], R1: get("R1")}
	c03check("family D (interfaces)", def, func(c *c03cfgD) []reflect.Value {
		out := []reflect.Value{reflect.ValueOf(c.R0), reflect.ValueOf(c.R1)}
		for _, r := range []*c03D{c.R0, c.R1} {
			if r != nil {
				// identity is promised for pointer/map references held in struct fields, slice and
				// array elements and map values; interface payloads must be copied faithfully
				// (deep equality, termination) but are not in the identity clause
				out = append(out, reflect.ValueOf(r.P))
			}
		}
		return out
	})
}

// HarnessC03ConfigRecursive: Config on a recursive config struct type (acyclic value).
func HarnessC03ConfigRecursive() {
	def := &c03cfgA{R0: &c03A{Val: zzverif.Int64("val0")}}
	d, err := Config(context.Background(), def)
	zzverif.Assert(err == nil, "C03 Config failed on a recursive config type")
	if err != nil {
		return
	}
	zzverif.Assert(d.View().R0 != nil && d.View().R0.Val == def.R0.Val, "C03 Config on a recursive config type lost a value")
	zzverif.Reached("c03-config-end")
}

func HarnessC03A2() { c03famA(2) }
func HarnessC03B2() { c03famB(2) }
func HarnessC03C2() { c03famC(2) }
func HarnessC03D2() { c03famD(2) }
func HarnessC03A3() { c03famA(3) }
func HarnessC03D1() { c03famD(1) }

// ---- family E: maps of maps with sharing; family F: references declared after an unexported field

type c03cfgE struct {
	Outer  map[string]map[string]int8
	Again0 map[string]int8
	Again1 map[string]int8
}

func c03famE() {
	inner := []map[string]int8{{"a": zzverif.Int8("i0")}, {"b": zzverif.Int8("i1")}}
	pick := func(name string) map[string]int8 {
		if k := c03pick(name, 2); k >= 0 {
			return inner[k]
		}
		return nil
	}
	def := &c03cfgE{Outer: map[string]map[string]int8{"x": inner[0], "y": inner[zzverif.Choose("outer_y", 2)]}, Again0: pick("again0"), Again1: pick("again1")}
	c03check("family E (maps of maps)", def, func(c *c03cfgE) []reflect.Value {
		return []reflect.Value{reflect.ValueOf(c.Outer), reflect.ValueOf(c.Outer["x"]), reflect.ValueOf(c.Outer["y"]), reflect.ValueOf(c.Again0), reflect.ValueOf(c.Again1)}
	})
}

type c03F struct {
	Val    int64
	P      *c03F
	hidden int
	Q      *c03F
	M      map[string]*c03F
	A      [1]*c03F
	// exported but not managed by dials: still part of the graph that is copied
	Skip *c03F `dials:"-"`
}

type c03cfgF struct {
	R0     *c03F
	secret int
	R1     *c03F
	Shared map[string]*c03F
}

func c03famF(n int) {
	nodes := make([]*c03F, n)
	for i := range nodes {
		nodes[i] = &c03F{Val: zzverif.Int64("val" + strconv.Itoa(i)), hidden: i}
	}
	get := func(name string) *c03F {
		if k := c03pick(name, n); k >= 0 {
			return nodes[k]
		}
		return nil
	}
	shared := map[string]*c03F{"x": get("shared_x")}
	for i, nd := range nodes {
		nd.P = get("n" + strconv.Itoa(i) + "P")
		nd.Q = get("n" + strconv.Itoa(i) + "Q")
		if zzverif.Choose("n"+strconv.Itoa(i)+"M", 2) == 1 {
			nd.M = shared
		}
		nd.A[0] = get("n" + strconv.Itoa(i) + "A0")
		if i == 0 {
			nd.Skip = get("n0Skip")
		}
	}
	def := &c03cfgF{R0: nodes[0], secret: 42, R1: get("R1"), Shared: shared}
	c03check("family F (references after unexported fields)", def, func(c *c03cfgF) []reflect.Value {
		out := []reflect.Value{reflect.ValueOf(c.R0), reflect.ValueOf(c.R1), reflect.ValueOf(c.Shared), reflect.ValueOf(c.Shared["x"])}
		for _, r := range []*c03F{c.R0, c.R1} {
			if r != nil {
				out = append(out, reflect.ValueOf(r.P), reflect.ValueOf(r.Q), reflect.ValueOf(r.M), reflect.ValueOf(r.A[0]), reflect.ValueOf(r.Skip))
			}
		}
		return out
	})
}

func HarnessC03E()  { c03famE() }
func HarnessC03F2() { c03famF(2) }

// ---- family G: references nested in arrays of arrays and in slices of arrays

type c03G struct {
	Val  int64
	P    *c03G
	Grid [1][1]*c03G
	Rows [][1]*c03G
	M    map[string][1]*c03G
	PA   *[1]*c03G
}

type c03cfgG struct{ R0, R1 *c03G }

func c03famG(n int, full bool) {
	nodes := make([]*c03G, n)
	for i := range nodes {
		nodes[i] = &c03G{Val: zzverif.Int64("val" + strconv.Itoa(i))}
	}
	get := func(name string) *c03G {
		if k := c03pick(name, n); k >= 0 {
			return nodes[k]
		}
		return nil
	}
	for i, nd := range nodes {
		nd.P = get("n" + strconv.Itoa(i) + "P")
		nd.Grid[0][0] = get("n" + strconv.Itoa(i) + "G")
		if i == 0 && zzverif.Choose("n0PA", 2) == 1 {
			nd.PA = &[1]*c03G{get("n0PA0")}
		}
		if !full && i > 0 {
			continue
		}
		if zzverif.Choose("n"+strconv.Itoa(i)+"R", 2) == 1 {
			nd.Rows = [][1]*c03G{{get("n" + strconv.Itoa(i) + "R0")}}
		}
		if zzverif.Choose("n"+strconv.Itoa(i)+"M", 2) == 1 {
			nd.M = map[string][1]*c03G{"k": {get("n" + strconv.Itoa(i) + "Mk")}}
		}
	}
	def := &c03cfgG{R0: nodes[0], R1: get("R1")}
	c03check("family G (nested arrays)", def, func(c *c03cfgG) []reflect.Value {
		out := []reflect.Value{reflect.ValueOf(c.R0), reflect.ValueOf(c.R1)}
		for _, r := range []*c03G{c.R0, c.R1} {
			if r != nil {
				out = append(out, reflect.ValueOf(r.P), reflect.ValueOf(r.Grid[0][0]))
				if r.PA != nil {
					out = append(out, reflect.ValueOf(r.PA[0]))
				}
				if len(r.Rows) > 0 {
					out = append(out, reflect.ValueOf(r.Rows[0][0]))
				}
				if r.M != nil {
					out = append(out, reflect.ValueOf(r.M["k"][0]))
				}
			}
		}
		return out
	})
}

func HarnessC03G2()     { c03famG(2, false) }
func HarnessC03G2Full() { c03famG(2, true) }

// ---- family H: the whole public path (Config) on a config struct that refers to itself only
// through slices, maps and arrays (ptrify keeps those field types, so Config terminates), with
// back-edges to the root config struct itself.

type c03H struct {
	Val   int64
	Kids  []*c03H
	Named map[string]*c03H
	Pair  [1]*c03H
}

func c03famH(n int) {
	nodes := make([]*c03H, n)
	for i := range nodes {
		nodes[i] = &c03H{Val: zzverif.Int64("val" + strconv.Itoa(i))}
	}
	get := func(name string) *c03H {
		if k := c03pick(name, n); k >= 0 {
			return nodes[k]
		}
		return nil
	}
	for i, nd := range nodes {
		if zzverif.Choose("n"+strconv.Itoa(i)+"K", 2) == 1 {
			nd.Kids = []*c03H{get("n" + strconv.Itoa(i) + "K0")}
		}
		if zzverif.Choose("n"+strconv.Itoa(i)+"N", 2) == 1 {
			nd.Named = map[string]*c03H{"k": get("n" + strconv.Itoa(i) + "Nk")}
		}
		nd.Pair[0] = get("n" + strconv.Itoa(i) + "P0")
	}
	def := nodes[0]
	d, err := Config(context.Background(), def)
	zzverif.Assert(err == nil && d != nil, "C03 family H: Config failed on a cyclic graph")
	if err != nil || d == nil {
		return
	}
	got := d.View()
	zzverif.Assert(got != nil && got != def, "C03 family H: the view is not a fresh root")
	if got == nil {
		return
	}
	zzverif.Assert(reflect.DeepEqual(got, def), "C03 family H: the stacked config is not deeply equal to the supplied graph")
	slots := func(c *c03H) []reflect.Value {
		out := []reflect.Value{reflect.ValueOf(c)}
		seen := map[*c03H]bool{}
		var walk func(p *c03H, depth int)
		walk = func(p *c03H, depth int) {
			out = append(out, reflect.ValueOf(p))
			if p == nil || seen[p] || depth > 3 {
				return
			}
			seen[p] = true
			if len(p.Kids) > 0 {
				walk(p.Kids[0], depth+1)
			} else {
				out = append(out, reflect.ValueOf((*c03H)(nil)))
			}
			if p.Named != nil {
				walk(p.Named["k"], depth+1)
			} else {
				out = append(out, reflect.ValueOf((*c03H)(nil)))
			}
			walk(p.Pair[0], depth+1)
		}
		walk(c, 0)
		return out
	}
	in, out := slots(def), slots(got)
	zzverif.Assert(len(in) == len(out), "C03 family H: the copied graph has a different shape")
	if len(in) != len(out) {
		return
	}
	for i := range in {
		zzverif.Assert(in[i].IsNil() == out[i].IsNil(), "C03 family H: a nil reference became non-nil or vice versa")
		if in[i].IsNil() || out[i].IsNil() {
			continue
		}
		zzverif.Assert(in[i].Pointer() != out[i].Pointer(), "C03 family H: a reference in the result aliases the input")
		for j := i + 1; j < len(in); j++ {
			if in[j].IsNil() || out[j].IsNil() {
				continue
			}
			same := in[i].Pointer() == in[j].Pointer()
			zzverif.Assert(same == (out[i].Pointer() == out[j].Pointer()), "C03 family H: references that were identical in the input are not identical in the result (or vice versa): slots "+strconv.Itoa(i)+","+strconv.Itoa(j))
		}
	}
	zzverif.Reached("c03h-end")
}

func HarnessC03H1() { c03famH(1) }
func HarnessC03H2() { c03famH(2) }

// ---- family I: references of *named* pointer, map and slice types

type c03Ref *c03I
type c03RefMap map[string]*c03I
type c03RefList []c03Ref
type c03RefMap2 map[string]*c03I

type c03I struct {
	Val int64
	P   c03Ref
	Q   *c03I
	M   c03RefMap
	L   c03RefList
	M2  map[string]*c03I // may be the same map object as M, under the unnamed type
	M3  c03RefMap2       // ... and under a second defined map type
}

type c03cfgI struct{ R0, R1 c03Ref }

func c03famI(n int) {
	nodes := make([]*c03I, n)
	for i := range nodes {
		nodes[i] = &c03I{Val: zzverif.Int64("val" + strconv.Itoa(i))}
	}
	get := func(name string) *c03I {
		if k := c03pick(name, n); k >= 0 {
			return nodes[k]
		}
		return nil
	}
	for i, nd := range nodes {
		nd.P = get("n" + strconv.Itoa(i) + "P")
		nd.Q = get("n" + strconv.Itoa(i) + "Q")
		if i == 0 {
			switch zzverif.Choose("n0M", 3) {
			case 1:
				nd.M = c03RefMap{"k": get("n0Mk")}
			case 2:
				nd.M = c03RefMap{"k": get("n0Mk")}
				nd.M2 = map[string]*c03I(nd.M)
				nd.M3 = c03RefMap2(nd.M)
			}
			if zzverif.Choose("n0L", 2) == 1 {
				nd.L = c03RefList{get("n0L0")}
			}
		}
	}
	def := &c03cfgI{R0: nodes[0], R1: get("R1")}
	c03check("family I (named pointer/map/slice types)", def, func(c *c03cfgI) []reflect.Value {
		out := []reflect.Value{reflect.ValueOf((*c03I)(c.R0)), reflect.ValueOf((*c03I)(c.R1))}
		for _, r := range []*c03I{c.R0, c.R1} {
			if r != nil {
				out = append(out, reflect.ValueOf((*c03I)(r.P)), reflect.ValueOf(r.Q))
				if r.M != nil {
					out = append(out, reflect.ValueOf(r.M["k"]))
				}
				if r.M2 != nil {
					out = append(out, reflect.ValueOf(map[string]*c03I(r.M)), reflect.ValueOf(r.M2), reflect.ValueOf(map[string]*c03I(r.M3)))
				}
				if len(r.L) > 0 {
					out = append(out, reflect.ValueOf((*c03I)(r.L[0])))
				}
			}
		}
		return out
	})
}

func HarnessC03I2() { c03famI(2) }

// ---- family S: sharing inside a *source value* (user-declared pointer leaves keep their type
// in the pointerified struct, so a source can hand dials the same pointer in several places),
// stacked through Config and re-stacked through the monitor.

type c03S struct {
	Primary *int64
	Again   *int64
	All     []*int64
	Limits  map[string]*int64
	K       int8
}

type c03ssrc struct {
	mk func(t *Type) reflect.Value
	t  *Type
	wa WatchArgs
}

func (s *c03ssrc) Value(ctx context.Context, t *Type) (reflect.Value, error) { return s.mk(t), nil }
func (s *c03ssrc) Watch(ctx context.Context, t *Type, wa WatchArgs) error {
	s.t, s.wa = t, wa
	return nil
}

func HarnessC03SourceSharing() {
	a, b := zzverif.Int64("a"), zzverif.Int64("b")
	pick := func(name string, ints []*int64) *int64 {
		if k := c03pick(name, 2); k >= 0 {
			return ints[k]
		}
		return nil
	}
	sPrimary, sAgain, sAll, sLim := c03pick("primary", 2), c03pick("again", 2), c03pick("all0", 2), c03pick("lim", 2)
	var lastInts []*int64
	mk := func(t *Type) reflect.Value {
		x, y := a, b
		ints := []*int64{&x, &y}
		lastInts = ints
		sel := func(k int) *int64 {
			if k < 0 {
				return nil
			}
			return ints[k]
		}
		out := reflect.New(t.Type()).Elem()
		out.FieldByName("Primary").Set(reflect.ValueOf(sel(sPrimary)))
		out.FieldByName("Again").Set(reflect.ValueOf(sel(sAgain)))
		if sAll >= 0 {
			out.FieldByName("All").Set(reflect.ValueOf([]*int64{sel(sAll)}))
		}
		if sLim >= 0 {
			out.FieldByName("Limits").Set(reflect.ValueOf(map[string]*int64{"default": sel(sLim)}))
		}
		return out
	}
	_ = pick
	src := &c03ssrc{mk: mk}
	ctx, cancel := context.WithCancel(context.Background())
	defer cancel()
	def := c03S{K: 1}
	d, err := Config(ctx, &def, src)
	zzverif.Assert(err == nil, "C03 source sharing: Config failed")
	if err != nil {
		return
	}
	check := func(when string) {
		got := d.View()
		slots := []*int64{got.Primary, got.Again, nil, nil}
		if len(got.All) > 0 {
			slots[2] = got.All[0]
		}
		if got.Limits != nil {
			slots[3] = got.Limits["default"]
		}
		want := []int{sPrimary, sAgain, sAll, sLim}
		for i := range slots {
			zzverif.Assert((slots[i] == nil) == (want[i] < 0), "C03 source sharing ("+when+"): a reference set by the source is missing in the view, or one it left unset is present")
			if slots[i] == nil || want[i] < 0 {
				continue
			}
			wantVal := a
			if want[i] == 1 {
				wantVal = b
			}
			zzverif.Assert(*slots[i] == wantVal, "C03 source sharing ("+when+"): wrong pointee value")
			for _, p := range lastInts {
				zzverif.Assert(slots[i] != p, "C03 source sharing ("+when+"): the view aliases the source's value")
			}
			for j := i + 1; j < len(slots); j++ {
				if slots[j] == nil || want[j] < 0 {
					continue
				}
				zzverif.Assert((slots[i] == slots[j]) == (want[i] == want[j]), "C03 source sharing ("+when+"): references that were identical in the source's value are not identical in the view (or vice versa): slots "+strconv.Itoa(i)+","+strconv.Itoa(j))
			}
		}
	}
	check("initial stack")
	e := src.wa.BlockingReportNewValue(ctx, mk(src.t))
	zzverif.Assert(e == nil, "C03 source sharing: a blocking report failed")
	check("re-stack")
	zzverif.Reached("c03s-end")
}
