# Per-property check configuration: which harness entry points run in which tier, with which
# packages loaded from source (interpreted by symgo) and which bounds. tools/gen_manifest.py turns
# the "claim" entries into MANIFEST.json.
M = "github.com/vimeo/dials"
CC = M + "/tagformat/caseconversion"
PARSE = M + "/parse"
LIBS = ["strings", "unicode/utf8", "strconv"]
CORE = [M + "/ptrify", M + "/common", "strings", "unicode/utf8", "strconv", "go/token"]
SW = [M, M + "/ptrify", M + "/common", M + "/transform", M + "/parse", "strings", "unicode/utf8", "strconv", "go/token"]
ENVP = [M, M + "/ptrify", M + "/common", M + "/transform", M + "/parse", M + "/tagformat", M + "/tagformat/caseconversion", M + "/helper",
        "github.com/fatih/structtag", "strings", "unicode/utf8", "strconv", "go/token", "text/scanner", "bytes", "io"]
FLAGP = ENVP + [M + "/sources/flag/flaghelper", "flag", "sort"]
PFLAGP = ENVP + [M + "/sources/flag/flaghelper", "github.com/spf13/pflag", "sort", "encoding/csv", "bufio", "internal/stringslite", "math/bits"]
HELP = [M + "/parse", "strings", "unicode/utf8", "strconv", "go/token", "text/scanner", "bytes", "io", "sort"]
EZP = ENVP + [M + "/sourcewrap", M + "/sources/env", M + "/sources/flag", M + "/sources/flag/flaghelper", "flag", "sort"]
TFP = [M + "/ptrify", M + "/common", M + "/parse", M + "/tagformat/caseconversion", M + "/helper", "github.com/fatih/structtag", "sort",
       "strings", "unicode/utf8", "strconv", "go/token", "text/scanner", "bytes", "io"]
TEXT = ["strings", "unicode/utf8", "strconv", "text/scanner", "bytes", "io", "go/token"]

COMMON_ASSUME = [
    "front end go/packages + go/ssa (x/tools v0.29.0) and go/types; symgo executor semantics for SSA, maps (insertion-ordered), strings, panics",
    "z3 5.1.0 answers (sat/unsat) are trusted; unknown/error answers are reported as inconclusive",
    "fmt formatting is opaque (error identity, %w chains and nil-ness preserved)",
]
CONC_ASSUME = COMMON_ASSUME + [
    "data-race freedom: a goroutine runs atomically between two synchronisation operations (channel ops, select, atomics, mutex, context cancel/Err, harness events)",
    "sleep-set partial-order reduction over read/write object sets (no Mazurkiewicz trace lost); no preemption bound",
    "context deadlines/timers never fire (dials creates none); the context model is an intrinsic, not the real package",
    "reflect is an executable model over go/types (validated natively on sampled paths in the sequential checks)",
]
REFLECT_ASSUME = COMMON_ASSUME + [
    "reflect is an executable model over go/types and the executor's heap; every explored path sampled for validation is re-run natively against the real reflect and must agree",
]

NOT_APPLICABLE = {
    "C13": "verdict depends on encoding/json, yaml.v2, go-toml and the CUE evaluator, which cannot be encoded; with the decoders stubbed the check would decide the stub (DESIGN.md §5)",
    "C17": "verdict depends on kernel inotify, fsnotify, a real file system and real time; a stub for that environment would be the thing verified (DESIGN.md §5)",
}


def conc(entry, reach, tiers=None, **kw):
    r = {"entry": M + "." + entry, "pkgs": CORE, "must_reach": reach, "instrument": [M], "validate": 0}
    if tiers:
        r["tiers"] = tiers
    r.update(kw)
    return r


def seq(entry, reach, tiers=None, **kw):
    r = {"entry": M + "." + entry, "pkgs": CORE, "must_reach": reach}
    if tiers:
        r["tiers"] = tiers
    r.update(kw)
    return r


CHECKS = {
    "SMOKE": {"runs": [{"entry": M + ".HarnessL1Smoke", "pkgs": CORE, "must_reach": ["smoke-end"]}]},
    "C01": {
        "claim": {
            "text": "bounded model checking of the real Config/compose/overlay/deep-copy/Pointerify code over a corpus of 8 config struct types plus a generated family (every struct of <=2, thorough 3, fields over a 19-kind alphabet in every order, built with reflect.StructOf and stacked through the real compose): every set/unset pattern of every leaf in 1-2 (thorough 3) layers is explored and every leaf value is symbolic, so the solver proves 'last source that set it wins, else default' against an independent reference model for all values",
            "note": "types are a hand-written corpus (enumerated, not solved); layers are built by field name through the pointerified type like decoders do; reflect is a model validated natively on sampled paths; interface-typed config fields are outside",
            "design_ref": "DESIGN.md §4 C01",
        },
        "runs": [seq("HarnessC01T1", ["c01-end"]), seq("HarnessC01T2", ["c01-end"]), seq("HarnessC01T3L1", ["c01-end"], ["quick"]),
                 seq("HarnessC01T4L1", ["c01-end"], ["quick"]), seq("HarnessC01T5", ["c01-end"]), seq("HarnessC01T6", ["c01-end"]),
                 seq("HarnessC01T7", ["c01-end"]), seq("HarnessC01T8", ["c01-end"], ["quick"]), seq("HarnessC01T8L2", ["c01-end"], ["thorough"]), seq("HarnessC01T11", ["c01-end"]), seq("HarnessC01T9", ["c01-end"]), seq("HarnessC01T10", ["c01-end"]), conc("HarnessC02History2", ["c02-hist-end"]), conc("HarnessC05Seq", ["c05-end"]), conc("HarnessC04Aliasing", ["c04-aliasing-end"]), seq("HarnessC01Gen2", ["c01-gen-end"]),
                 seq("HarnessC01Gen2L2", ["c01-gen-end"], ["thorough"], maxpaths=2000000, timeout="3000s"), seq("HarnessC01Gen3", ["c01-gen-end"], ["thorough"], maxpaths=3000000, timeout="3000s"), seq("HarnessC01T3", ["c01-end"], ["thorough"]), seq("HarnessC01T4", ["c01-end"], ["thorough"]),
                 seq("HarnessC01T2L3", ["c01-end"], ["thorough"]), seq("HarnessC01T7L3", ["c01-end"], ["thorough"])],
        "bounds": {"quick": "8 types (scalars/durations, skipped fields in every position, nested+pointer+embedded structs, slices/maps/arrays, user pointers incl. two leaves aliasing one variable in the defaults, text-unmarshalable value+pointer, deep nesting, pointer-bearing arrays in slices / struct map keys holding pointers / pointer to an all-nilable struct); 2 layers (1 for the two biggest types); slices len<=2, maps <=1 entry; all scalar values; generated family: all 19+361 types of 1-2 fields over {int8,string,[]int16,map,*int,struct,*struct,[2]uint8,dials:\"-\",chan,func,text-unmarshalable,*all-nilable struct,[][1]*struct,map[struct-with-pointer]int8,map of maps,text-unmarshalable with reference fields,unmanaged map,*chan}, 1 layer; T9 (shared inner maps, unmanaged reference fields), T10 (shadowing skipped field, text-unmarshalable with references); two-watcher precedence (C05Seq) and the all-nilable-pointee aliasing scenario",
                   "thorough": "same corpus, 2 layers everywhere, 3 layers on the small types; generated family: all 1728 three-field types over the first 12 kinds (1 layer), all 361 two-field types over 19 kinds (2 layers)"},
        "outside": "other struct types; more layers; longer slices/maps; interface-typed fields; floats/complex are drawn from 2-3 concrete values",
        "assumptions": REFLECT_ASSUME,
    },
    "C02": {
        "claim": {
            "text": "bounded model checking of isolation: on every explored stacking the set of pointers/maps/slice backing arrays reachable from the view is disjoint from those of the defaults, of every source value and of every other version (identity computed on the executor's heap, natively via reflect), the defaults are unchanged, and every version equals a fresh reference stack; histories of 2 (thorough 3) re-stacks through the real monitor",
            "note": "same corpus and reflect model as C01; history part uses one static and one watching source",
            "design_ref": "DESIGN.md §4 C02",
        },
        "runs": [conc("HarnessC02History2", ["c02-hist-end"]), seq("HarnessC01T4L1", ["c01-end"], ["quick"]), seq("HarnessC01T3L1", ["c01-end"], ["quick"]),
                 seq("HarnessC01T6", ["c01-end"]), seq("HarnessC01T5", ["c01-end"]), seq("HarnessC01T8", ["c01-end"], ["quick"]), seq("HarnessC01T8L2", ["c01-end"], ["thorough"]), seq("HarnessC01T11", ["c01-end"]), seq("HarnessC01T9", ["c01-end"]), seq("HarnessC01T10", ["c01-end"]), conc("HarnessC02History3", ["c02-hist-end"], ["thorough"]),
                 seq("HarnessC01T4", ["c01-end"], ["thorough"]), seq("HarnessC01T3", ["c01-end"], ["thorough"])],
        "bounds": {"quick": "corpus types T3,T4,T5,T6,T8 with 1-2 layers (identity sets include map keys); 2 re-stacks with symbolic set/unset of a nested-pointer leaf and a scalar; T9, T10; every version is written through by its consumer before the next re-stack; defaults with an empty map held in an interface and a map only the defaults set",
                   "thorough": "2 layers on T3/T4; 3 re-stacks"},
        "outside": "other types; longer histories",
        "assumptions": REFLECT_ASSUME,
    },
    "C03": {
        "claim": {
            "text": "bounded model checking of the real deep copier on every object graph over 7 recursive node families with <=2 (thorough 3) nodes, and of the whole public path (Config, View) on an 8th family that is recursive only through slices/maps/arrays with back-edges to the root config struct: every edge set (nil, self loops, cycles, diamonds, shared maps, references in slices/arrays/maps/interfaces, typed nil in interface) is explored; result deep-equal, identity relation of pointer/map references isomorphic, all references fresh, recursion bounded",
            "note": "Config cannot be driven with config types that are recursive through a direct pointer or struct field: ptrify.Pointerify does not terminate on them (open known finding, replayed natively as a stack overflow); the graph properties are checked on realDeepCopy, which Config, compose and overlay go through",
            "design_ref": "DESIGN.md §4 C03",
        },
        "runs": [seq("HarnessC03A2", ["c03-end"]), seq("HarnessC03B2", ["c03-end"]), seq("HarnessC03C2", ["c03-end"]),
                 seq("HarnessC03D2", ["c03-end"], native_timeout=120), seq("HarnessC03ConfigRecursive", [], native_timeout=120),
                 seq("HarnessC03E", ["c03-end"]), seq("HarnessC03F2", ["c03-end"]), seq("HarnessC03G2", ["c03-end"], ["quick"]), seq("HarnessC03G2Full", ["c03-end"], ["thorough"], maxpaths=1500000, timeout="3000s"), seq("HarnessC03H2", ["c03h-end"]), seq("HarnessC03I2", ["c03-end"]), conc("HarnessC03SourceSharing", ["c03s-end"]),
                 seq("HarnessC03A3", ["c03-end"], ["thorough"])],
        "bounds": {"quick": "families A (pointer fields), B (maps), C (slices/arrays), D (interfaces), E (maps of maps), F (refs after unexported fields), G (arrays of arrays, slices of arrays, maps of arrays; reduced edge set in quick), H (through Config: Kids []*T, Named map[string]*T, Pair [1]*T with root back-edges); N<=2 nodes; call depth bound 400 (unwinding assertion); family I (named pointer/map/slice types, one map under two named map types), source-value sharing through Config and a re-stack; slice prefixes, unmanaged references, pointer to array of references, self-containing map and named pointer in an interface",
                   "thorough": "plus family A with 3 nodes and the full edge set of family G"},
        "outside": "more nodes; other node shapes; re-stacking of recursive types (blocked by the Pointerify finding)",
        "assumptions": REFLECT_ASSUME,
    },
    "C04": {
        "claim": {
            "text": "bounded model checking of the real Config/monitor/updateSourceValue/callback code under all interleavings: 2 (thorough 3) updates of arbitrary validity, all four Skip/Delay combinations, a concurrent reader of ViewVersion/Events; every observed config is valid while verification is active, rejected updates leave pointer, serial and contents unchanged, blocking reports return the Verify error, OnWatchedError/OnNewConfig get exactly the documented arguments",
            "note": "validity is a symbolic flag stacked from the source (arbitrary valid/invalid alternation); counterexamples are replayed natively under the recorded goroutine schedule",
            "design_ref": "DESIGN.md §4 C04",
        },
        "runs": [conc("HarnessC04Quick", ["c04-end", "c04-config-rejected"]), conc("HarnessC04NonBlocking", ["c04-end"]),
                 {"entry": M + "/sourcewrap.HarnessC04Wrapped", "pkgs": SW, "must_reach": ["c04-wrapped-end"], "instrument": [M, M + "/sourcewrap"], "validate": 0},
                 conc("HarnessC07Quick", ["c07-end"]), conc("HarnessC09Race", ["c09-race-end"]), conc("HarnessC09Quick", ["c09-end"]), conc("HarnessC04Aliasing", ["c04-aliasing-end"]), conc("HarnessC08StackError", ["c08-stackerr-end"]), conc("HarnessC06DrainOnCancel", ["c06-drain-end"]), conc("HarnessC04Thorough", ["c04-end"], ["thorough"])],
        "bounds": {"quick": "1 watching source, 2 updates (blocking and plain), reader with 2 reads; 2 blocking reports of arbitrary validity through a transforming source; all schedules; aliasing scenario (accept/reject/accept-without-leaf on an all-nilable pointee), verdicts after an abandoned report, EnableVerification racing an invalid update, stacking failure, drain with a rejection", "thorough": "3 updates"},
        "outside": "more updates/sources; callback queue overflow (64) is not reached",
        "assumptions": CONC_ASSUME,
    },
    "C05": {
        "claim": {
            "text": "bounded model checking under all interleavings of 2 watching sources with 1+1 / 2+1 (thorough 2+2, 3+1) reports and a concurrent reader: the final view equals a fresh stack of the latest reported values folded in monitor-receive order (last valid one), serials count installs, a (config, serial) pair read together always belongs together, no reader sees the serial go backwards",
            "note": "the receive order is a ghost log appended in the same atomic step as the rendezvous with the monitor",
            "design_ref": "DESIGN.md §4 C05",
        },
        "runs": [conc("HarnessC05Quick", ["c05-end"]), conc("HarnessC05Seq", ["c05-end"]), conc("HarnessC05AfterDone", ["c05-done-end"]), conc("HarnessC05SameObject", ["c05-sameobject-end"]), conc("HarnessC05RejectAccept", ["c05-end"]), conc("HarnessC07Quick", ["c07-end"]),
                 conc("HarnessC05Thorough", ["c05-end"], ["thorough"], maxpaths=1000000, timeout="3000s"), conc("HarnessC05Three", ["c05-end"], ["thorough"], maxpaths=1000000, timeout="3000s")],
        "bounds": {"quick": "2 sources; 1+1 reports with 2 concurrent reads, 2+1 reports without reader; a nested pointer section set or not by the first update; all values symbolic; all schedules; reject-then-accept serials, one watcher Done while the other reports, value filled in by Verify, caller writing to its own defaults; one value object changed in place and reported again",
                   "thorough": "2+2 reports with 2 reads; 3+1 reports with 1 read"},
        "outside": "longer histories; 2^64 serial wrap",
        "assumptions": CONC_ASSUME,
    },
    "C06": {
        "claim": {
            "text": "bounded model checking under all interleavings of version installs with ViewVersion+RegisterCallback (fresh, stale, zero serial) and unregister: callbacks never overlap, OnNewConfig sees every version in order with its predecessor, a handle never receives a version <= its registration version or <= one already received, ordinary calls carry the immediate predecessor, catch-up is the only jump, nothing is delivered after unregister returned true, and a handle that keeps up ends at the latest version without gaps",
            "note": "both orders of store / registration queued / event queued arise from the scheduler (no hooks); ordering among different registered callbacks within one event is not asserted",
            "design_ref": "DESIGN.md §4 C06",
        },
        "runs": [conc("HarnessC06Quick", ["c06-end"]), conc("HarnessC06Unregister", ["c06-end"]), conc("HarnessC06NoGlobal", ["c06-end"]),
                 conc("HarnessC06UnregisterShutdown", ["c06-shutdown-end"]), conc("HarnessC06DrainOnCancel", ["c06-drain-end"]), conc("HarnessC06AfterOverflow", ["c06-overflow-end"]), conc("HarnessC06SameContent", ["c06-same-end"]), conc("HarnessC06Thorough", ["c06-end"], ["thorough"])],
        "bounds": {"quick": "2 installs, 1 registrar (3 serial modes), optional unregister; with and without global callbacks; unregister racing with a slow callback and the watcher's Done; all schedules; rejected report ahead of the installs, drain on cancel/Done with a rejection, catch-up after one overflow, same-content re-report", "thorough": "3 installs, slow callbacks"},
        "outside": "which versions are dropped on overflow (only the behaviour after one overflow is checked); several registrars",
        "assumptions": CONC_ASSUME,
    },
    "C07": {
        "claim": {
            "text": "bounded model checking of BlockingReportNewValue racing with the cancellation of its own context at every point (before submission, between submission and installation, after), optionally with a plain report from another source: nil => stacked and visible, Verify error => rejected and view unchanged, otherwise a context error; afterwards the monitor still serves another blocking report (not left blocked on the departed caller)",
            "note": "Blank.SetSource is covered in C20's Blank harness (it calls this method under a mutex)",
            "design_ref": "DESIGN.md §4 C07",
        },
        "runs": [conc("HarnessC08StackError", ["c08-stackerr-end"]), conc("HarnessC08BlockedCallback", ["c08-blocked-end"]), conc("HarnessC07Quick", ["c07-end"]), conc("HarnessC07Second", ["c07-end"]), conc("HarnessC04Quick", ["c04-end", "c04-config-rejected"]),
                 {"entry": M + "/sourcewrap.HarnessC04Wrapped", "pkgs": SW, "must_reach": ["c04-wrapped-end"], "instrument": [M, M + "/sourcewrap"], "validate": 0},
                 {"entry": M + "/sourcewrap.HarnessC20BlankContexts", "pkgs": SW, "must_reach": ["c20-blank-ctx-end", "c20-blank-late-end", "c20-blank-eager-end"], "instrument": [M, M + "/sourcewrap"], "validate": 0},
                 {"entry": M + "/sourcewrap.HarnessC20Blank", "pkgs": SW, "must_reach": ["c20-blank-end", "c20-blank-done"], "instrument": [M, M + "/sourcewrap"], "validate": 0}],
        "bounds": {"quick": "1 blocking report + canceller goroutine (+1 plain report); 2 blocking reports of arbitrary validity through a transforming source; Blank.SetSource with its own context, also after Done; all schedules; rejected report behind a full callback queue, stacking failure, Blank sequences incl. re-setting the same source", "thorough": "same"},
        "outside": "several concurrent blocking reporters",
        "assumptions": CONC_ASSUME,
    },
    "C08": {
        "claim": {
            "text": "bounded model checking of liveness/safety of the public API under all interleavings: 1+1 (thorough 2+1) operations drawn from {report, report error, Done, register, unregister, EnableVerification, cancel, blocking report, blocking report of an invalid value} on two goroutines; no panic in any goroutine, no call blocks past its context, after shutdown no dials goroutine is alive; double unregister; every API call issued after shutdown (cancel or last watcher Done); thorough: a callback blocked forever does not stop 67 installs + source errors beyond the 64-slot queue",
            "note": "contexts passed to calls end at quiescence (a watchdog cancels them when nothing else can move), modelling 'the context eventually ends'",
            "design_ref": "DESIGN.md §4 C08",
        },
        "runs": [conc("HarnessC08Quick", ["c08-end"]), conc("HarnessC08Seq2", ["c08-end"]), conc("HarnessC08DoubleUnregister", ["c08-double-unreg-end"]),
                 conc("HarnessC08LateCalls", ["c08-late-end"]), conc("HarnessC08BlockedCallback", ["c08-blocked-end"]), conc("HarnessC08BlockingCancel", ["c08-blocking-cancel-end"]),
                 conc("HarnessC08TwoWatchers", ["c08-two-watchers-end"]), conc("HarnessC08PendingUnregister", ["c08-pending-unreg-end"]), conc("HarnessC08StackError", ["c08-stackerr-end"]), conc("HarnessC08UncomparableSource", ["c08-uncomparable-end"]), conc("HarnessC08EventsConsumer", ["c08-events-end"]), conc("HarnessC09EnableCancel", ["c09-enable-cancel-end"]),
                 {"entry": M + "/sourcewrap.HarnessC20BlankContexts", "pkgs": SW, "must_reach": ["c20-blank-ctx-end", "c20-blank-late-end", "c20-blank-eager-end"], "instrument": [M, M + "/sourcewrap"], "validate": 0},
                 {"entry": M + "/sourcewrap.HarnessC20Blank", "pkgs": SW, "must_reach": ["c20-blank-end", "c20-blank-done"], "instrument": [M, M + "/sourcewrap"], "validate": 0},
                 conc("HarnessC08Thorough", ["c08-end"], ["thorough"], maxpaths=3000000)],
        "bounds": {"quick": "2 callers x 1 op, 2 sequential ops, 9-op alphabet, delay on/off; two watchers finishing in either order or concurrently; an unregistration pending (optionally behind a stuck callback) at shutdown; all schedules; stacking failure, uncomparable source type, Events() consumer, abandoned EnableVerification after a successful one, Blank.SetSource contexts", "thorough": "2+1 ops; blocked-callback run of 67 updates"},
        "outside": "longer operation sequences; more than 2 callers",
        "assumptions": CONC_ASSUME,
    },
    "C09": {
        "claim": {
            "text": "bounded model checking of delayed verification: all four Delay x CallGlobalCallbacksAfterVerificationEnabled combinations, with and without a watching source, every sequence of 3 (thorough 4) events from {EnableVerification, update of arbitrary validity, source error}: Verify is never called before enabling, enabling verifies exactly the installed config and returns it with its serial, failure keeps the delay, and global callbacks are withheld exactly while delay-in-force and the option is set",
            "note": "sequential harness (events are issued from one goroutine, callbacks observed at quiescence); racing EnableVerification with an in-flight update is covered by the schedules of the monitor/reporter rendezvous",
            "design_ref": "DESIGN.md §4 C09",
        },
        "runs": [conc("HarnessC09Quick", ["c09-end"]), conc("HarnessC09NoWatcher", ["c09-end"]), conc("HarnessC09Race", ["c09-race-end"]), conc("HarnessC09EnableCancel", ["c09-enable-cancel-end"]), conc("HarnessC08StackError", ["c08-stackerr-end"]), conc("HarnessC09NoVerify", ["c09-noverify-end"]), conc("HarnessC06DrainOnCancel", ["c06-drain-end"]),
                 {"entry": M + "/ez.HarnessC18NoWatch", "pkgs": EZP, "must_reach": ["c18-end", "c18-verify-error", "c18-file-error"], "instrument": [M, M + "/sourcewrap", M + "/ez"], "validate": 0},
                 conc("HarnessC09Thorough", ["c09-end"], ["thorough"])],
        "bounds": {"quick": "3 events; 4 Delay x suppress combinations plus SkipInitialVerification with/without suppress; initial validity symbolic; an EnableVerification call abandoned at an arbitrary moment, then retried; Verify fails for an external reason during EnableVerification calls that are documented not to verify; config type without Verify, stacking failure per suppression rule, abandoned enable (before and after a successful one), drain, ez with a watching flag source and file watching off; Verify failing for an external reason on the no-watcher fast path, then a retry", "thorough": "4 events"},
        "outside": "longer event sequences",
        "assumptions": CONC_ASSUME,
    },
    "C11": {
        "claim": {'text': 'bounded model checking of the real environment source (alias, flatten, tag-reformat, tag-copy, string-cast manglers, structtag, caseconversion, parse): every subset of the 12 variables of a config type with nested, pointer, embedded, tagged, dialsenv-named, slice and duration leaves, integer values symbolic over all of int64/uint64: a leaf is set exactly when its documented variable is present, with the parsed value, decoy names are never read, out-of-range values are errors, and a second Value call forgets removed variables', 'note': 'os.LookupEnv is an intrinsic reading the harness table (natively os.Setenv); expected variable names are written by hand from the documented rule (embedded structs contribute no name component)', 'design_ref': 'DESIGN.md §4 C11'},
        "bounds": {'quick': '1 type, 12 variables, all subsets, no prefix; a second type with initialism/plural-initialism names, decoys, and a map variable with bare keys (1 symbolic payload byte); generated family (<=2, thorough 3, fields over 11 shapes, all subsets); names with non-ASCII letters and an embedded named scalar; list element with a space, complex128, float32 max, value containing =; slice of a named string type; one prefixed Source read twice', 'thorough': 'plus prefix APP'},
        "outside": 'other types; quoting-heavy string values (C15 covers the parsers)',
        "assumptions": REFLECT_ASSUME,
        "runs": [
            {"entry": M + "/sources/env.HarnessC11NoPrefix", "pkgs": ENVP, "must_reach": ["c11-end", "c11-error"]},
            {"entry": M + "/sources/env.HarnessC11Names", "pkgs": ENVP, "must_reach": ["c11-names-end"]},
            {"entry": M + "/sources/env.HarnessC11PrefixTwice", "pkgs": ENVP, "must_reach": ["c11-prefix-twice-end"]},
            {"entry": M + "/sources/env.HarnessC11Gen2", "pkgs": ENVP, "must_reach": ["c11-gen-end", "c11-gen-error"]},
            {"entry": M + "/sources/env.HarnessC11Gen3", "pkgs": ENVP, "must_reach": ["c11-gen-end", "c11-gen-error"], "tiers": ["thorough"]},
            {"entry": M + "/sources/env.HarnessC11Prefix", "pkgs": ENVP, "must_reach": ["c11-end", "c11-error"], "tiers": ["thorough"]},
        ],
    },
    "C12": {
        "claim": {'text': "bounded model checking of the real standard-library flag source with the real flag package interpreted from source: advertised defaults equal the template's (symbolic) values, exactly the flags on the command line set their leaves (every subset of 8 scalar flags, every value, every template default), out-of-range values are errors, repeated slice/map flags accumulate, float32 overflow is an error", 'note': 'standard-library half only: the pflag source (spf13/pflag, encoding/csv) is outside; flag usage printing is stubbed; float flags use concrete probes', 'design_ref': 'DESIGN.md §4 C12'},
        "bounds": {'quick': 'scalar flags: all subsets x all values; collection flags: absent/once/twice; 2-level nesting, hand-built Set with a pre-registered flag and no template (10 flags, all subsets, complex and text-unmarshaler leaves); generated family through flag and pflag; pflag: every integer width with symbolic value; nil-default set/map flags repeated, complex64 range, unsigned-slice default >= 2^63, user pointer leaves; time.Time default with nanoseconds; integer slice flags given the empty list', 'thorough': 'full product of both'},
        "outside": 'pflag; custom NameConfig; time flags',
        "assumptions": REFLECT_ASSUME,
        "runs": [
            {"entry": M + "/sources/flag.HarnessC12Scalars", "pkgs": FLAGP, "must_reach": ["c12-end", "c12-error"]},
            {"entry": M + "/sources/flag.HarnessC12Collections", "pkgs": FLAGP, "must_reach": ["c12-end", "c12-error"]},
            {"entry": M + "/sources/flag.HarnessC12Extras", "pkgs": FLAGP + ["time"], "must_reach": ["c12-extras-end"]},
            {"entry": M + "/sources/flag.HarnessC12Nested", "pkgs": FLAGP, "must_reach": ["c12-nested-end", "c12-nested-error"]},
            {"entry": M + "/sources/flag.HarnessC16FlagPtrLeaves", "pkgs": FLAGP, "must_reach": ["c16-flag-ptr-end"]},
            {"entry": M + "/sources/flag.HarnessC12Gen2", "pkgs": FLAGP, "must_reach": ["c12-gen-end", "c12-gen-error"]},
            {"entry": M + "/sources/flag.HarnessC12Gen3", "pkgs": FLAGP, "must_reach": ["c12-gen-end", "c12-gen-error"], "tiers": ["thorough"]},
            {"entry": M + "/sources/pflag.HarnessC12PflagGen2", "pkgs": PFLAGP, "must_reach": ["c12-pgen-end", "c12-pgen-error"]},
            {"entry": M + "/sources/pflag.HarnessC12PflagScalars", "pkgs": PFLAGP, "must_reach": ["c12-pflag-end", "c12-pflag-error"]},
            {"entry": M + "/sources/flag.HarnessC12All", "pkgs": FLAGP, "must_reach": ["c12-end", "c12-error"], "tiers": ["thorough"]},
        ],
    },
    "C18": {
        "claim": {'text': 'bounded model checking of the real ez entry point with the real Blank, environment source, transforming decoder and dials core under all interleavings: config path from default/env/flag/none, leaf A from every subset of {file, env, flag}, leaf B from {file, flag}, invalid-by-file / invalid-by-flag / valid-only-with-file, failing file source, watch on/off: first view = defaults<file<env<flags, Verify only ever sees the fully stacked config, its failure is the returned error, Events and global callbacks stay silent, a later file change re-stacks under the same precedence', 'note': 'ez.fileSource is stubbed symbolically by a source that hands the real (alias/set-slice wrapped) decoder chain an empty reader; natively the real file source reads a temp file; params.FlagSource is a harness source (the real flag source is C12); the harness decoder ignores the bytes', 'design_ref': 'DESIGN.md §4 C18'},
        "bounds": {'quick': '2 leaves, 4 path sources, 3 validity modes, file error, watch and no-watch; file keys matched by re-cased dials tag with FileFieldNameEncoder set: 2 aliased leaves x {neither, primary, alias, both}, environment on top; all schedules; set leaf (one member / explicitly empty / both names), nested leaf from the environment only, watching flag source with file watching off; untagged leaf ending in a pluralised initialism set by the environment', 'thorough': 'same'},
        "outside": 'the four real file formats (C13); flags registered on flag.CommandLine by an earlier ez call',
        "assumptions": CONC_ASSUME,
        "runs": [
            {"entry": M + "/ez.HarnessC18NoWatch", "pkgs": EZP, "must_reach": ["c18-end", "c18-verify-error", "c18-file-error"], "instrument": [M, M + "/sourcewrap", M + "/ez"], "validate": 0},
            {"entry": M + "/ez.HarnessC18Watch", "pkgs": EZP, "must_reach": ["c18-end"], "instrument": [M, M + "/sourcewrap", M + "/ez"], "validate": 0},
            {"entry": M + "/ez.HarnessC18FileKeys", "pkgs": EZP, "must_reach": ["c18-keys-end", "c18-keys-both-error"], "instrument": [M, M + "/sourcewrap", M + "/ez"], "validate": 0},
        ],
    },
    "C10": {
        "claim": {'text': 'bounded model checking of the real transformer and manglers: translate, write a symbolic subset of the translated fields, reverse: set-to-slice at three depths (nil/empty/elements), flatten (every subset of 9 flattened leaves incl. nested, pointer-nested, embedded, trailing), and five mangler lists (anonymous-flatten, text-unmarshaler, alias+set-slice, and two combinations): result has exactly the original type, every original leaf holds what was written to its counterpart, everything else is unset', 'note': 'expected translated field names are written by hand in the harness; the alias, tag-copy, tag-reformat, string-cast manglers are exercised in their shipped chains by C11/C12/C14/C20; type substitution (durations for JSON/Cue) is not covered', 'design_ref': 'DESIGN.md §4 C10'},
        "bounds": {'quick': '1 config type with 9 fields (scalars, set, nested, pointer-nested, embedded, text-unmarshalable, duration, slice); all subsets of written fields; 7 mangler lists; a second type with two levels of embedding, a nested struct and slices of structs (nil/empty/1 element) inside and outside the embedded struct, 4 mangler lists; generated family under 5 mangler lists; type substitution (incl. pointers to collections); element structs with unexported/embedded parts, slices of text-unmarshalable structs, a Transformer used twice; string casting of exact text and of map text with a value-less key; anonymous flatten over an embedded struct whose nested struct embeds another', 'thorough': 'same'},
        "outside": 'other config types; random sub-chains beyond the listed ones',
        "assumptions": REFLECT_ASSUME,
        "runs": [
            {"entry": M + "/transform.HarnessC10SetSlice", "pkgs": TFP, "must_reach": ["c10-setslice-end"]},
            {"entry": M + "/transform.HarnessC10Flatten", "pkgs": TFP, "must_reach": ["c10-flatten-end"]},
            {"entry": M + "/transform.HarnessC10Chains", "pkgs": TFP, "must_reach": ["c10-chains-end"]},
            {"entry": M + "/transform.HarnessC10Embedded", "pkgs": TFP, "must_reach": ["c10-embedded-end"]},
            {"entry": M + "/transform.HarnessC10Gen2", "pkgs": TFP, "must_reach": ["c10-gen-end"]},
            {"entry": M + "/transform.HarnessC10TypeSubst", "pkgs": TFP, "must_reach": ["c10-typesubst-end"]},
            {"entry": M + "/transform.HarnessC10StringCast", "pkgs": TFP, "must_reach": ["c10-stringcast-end"]},
            {"entry": M + "/sourcewrap.HarnessC20AnonFlatten", "pkgs": SW, "must_reach": ["c20-anon-end"], "instrument": [M, M + "/sourcewrap"], "validate": 0},
            {"entry": M + "/transform.HarnessC10Gen3", "pkgs": TFP, "must_reach": ["c10-gen-end"], "tiers": ["thorough"]},
        ],
    },
    "C14": {
        "claim": {'text': 'bounded model checking of aliases through the real environment source: 5 aliased fields (top-level string, nested leaf, slice, struct-level alias on a pointer struct, dialsenv/dialsenvalias) x all four neither/primary/alias/both patterns (1024 combinations) plus an unaliased field: either name sets the field, neither leaves it unset, both is an error, bare inner names are never read', 'note': 'environment source only; the flag sources use the same AliasMangler (registration chain covered by C12 without alias tags); file decoders are outside (C13)', 'design_ref': 'DESIGN.md §4 C14'},
        "bounds": {'quick': '1 type, 5 aliased fields at depth 0-1, all pattern combinations; 3 aliased fields whose primary name is implicit; the ez file chain with a key-matching decoder (2 aliased leaves x 4 patterns); flag and pflag sources (5 aliased leaves x 4 patterns); aliased leaf inside an aliased struct under each of 4 names; empty-valued aliased integer slice; generated family through env; one env Source read 3 times while a field moves between its names; aliased list of sections (one / empty under the alias / both)', 'thorough': 'same'},
        "outside": 'flag/pflag sources with alias tags; the real file decoders; the both-names error text is checked natively only',
        "assumptions": REFLECT_ASSUME,
        "runs": [
            {"entry": M + "/sources/env.HarnessC14Env", "pkgs": ENVP + ["sort"], "must_reach": ["c14-end", "c14-both-error"]},
            {"entry": M + "/sources/env.HarnessC14EnvNested", "pkgs": ENVP + ["sort"], "must_reach": ["c14-end", "c14-both-error"]},
            {"entry": M + "/sources/env.HarnessC11Gen2", "pkgs": ENVP, "must_reach": ["c11-gen-end", "c11-gen-error"]},
            {"entry": M + "/sources/env.HarnessC14EnvImplicit", "pkgs": ENVP + ["sort"], "must_reach": ["c14-implicit-end", "c14-implicit-both-error"]},
            {"entry": M + "/sources/env.HarnessC14EnvTwice", "pkgs": ENVP + ["sort"], "must_reach": ["c14-twice-end"]},
            {"entry": M + "/sources/flag.HarnessC14Flag", "pkgs": FLAGP, "must_reach": ["c14-flag-end", "c14-flag-both-error"]},
            {"entry": M + "/sources/pflag.HarnessC14Pflag", "pkgs": PFLAGP, "must_reach": ["c14-pflag-end", "c14-pflag-both-error"]},
            {"entry": M + "/ez.HarnessC18FileKeys", "pkgs": EZP, "must_reach": ["c18-keys-end", "c18-keys-both-error"], "instrument": [M, M + "/sourcewrap", M + "/ez"], "validate": 0},
        ],
    },
    "C15": {
        "claim": {
            "text": "bounded model checking of the real parse package: for every 64-bit literal value, in every Go literal style and padding, the integral parsers and parse.String accept it iff it is in the target type's range and then return exactly that value (solver-quantified over the value; strconv.ParseInt/ParseUint modelled by their documented contract with base and bit size checked); integer flag helpers round-trip String()/Set() for every value; string slices/sets/maps round-trip their canonical quoted form for every payload byte",
            "note": "strconv.ParseInt/ParseUint/FormatInt/FormatUint on symbolic integers are contract stubs over an opaque literal; floats, complex and durations are outside (strconv/time round-trips are not encoded)",
            "design_ref": "DESIGN.md §4 C15",
        },
        "runs": [
            {"entry": PARSE + ".HarnessC15IntSlices", "pkgs": LIBS, "must_reach": ["c15-signed-end", "c15-unsigned-end"]},
            {"entry": PARSE + ".HarnessC15IntSliceWide", "pkgs": LIBS, "must_reach": ["c15-wide-end"]},
            {"entry": PARSE + ".HarnessC15IntSliceTwo", "pkgs": LIBS, "must_reach": ["c15-two-end"]},
            {"entry": PARSE + ".HarnessC15ParseStringInts", "pkgs": LIBS, "must_reach": ["c15-parsestring-end"]},
            {"entry": PARSE + ".HarnessC15FloatBoundaries", "pkgs": LIBS, "must_reach": ["c15-float-end"]},
            {"entry": PARSE + ".HarnessC15FloatValues", "pkgs": LIBS, "must_reach": ["c15-floatvalues-end"]},
            {"entry": PARSE + ".HarnessC15MapInts", "pkgs": TEXT, "must_reach": ["c15-mapints-end"], "loopcap": 300},
            {"entry": M + "/sources/flag/flaghelper.HarnessC15HelperInts", "pkgs": HELP, "must_reach": ["c15-helper-ints-end"]},
            {"entry": M + "/sources/flag/flaghelper.HarnessC15HelperStrings1", "pkgs": HELP, "must_reach": ["c15-helper-strings-end"], "loopcap": 400},
            {"entry": M + "/sources/flag/flaghelper.HarnessC15HelperEmpty", "pkgs": HELP, "must_reach": ["c15-helper-empty-end"], "loopcap": 400},
            {"entry": M + "/sources/flag/flaghelper.HarnessC15HelperComplex", "pkgs": HELP, "must_reach": ["c15-helper-complex-end"], "loopcap": 400},
            {"entry": M + "/sources/flag/flaghelper.HarnessC15HelperStrings2", "pkgs": HELP, "must_reach": ["c15-helper-strings-end"], "loopcap": 400, "tiers": ["thorough"]},
        ],
        "bounds": {"quick": "11 integral-slice instantiations and 12 parse.String integer types x 5 literal styles x paddings; value = any int64/uint64; 1-2 elements; float/complex canonical values incl. infinities (concrete), empty strings/keys/slices, integer literals inside maps (concrete probes); complex helper print/parse round trip (concrete parts beyond float32 precision and range)",
                   "thorough": "same plus structure harnesses"},
        "outside": "floats/complex/durations; more than 2 elements; literals wider than 64 bits other than the 2^64 probe",
        "assumptions": COMMON_ASSUME + ["strconv.ParseInt/ParseUint/FormatInt/FormatUint contract stubs on opaque literals (concrete and symbolic-byte strings run the real strconv)"],
    },
    "C16": {
        "claim": {
            "text": "bounded model checking of panic/termination freedom: every byte string (including invalid UTF-8) of length <=2 (thorough <=3) through every text entry point of parse (slices, sets, maps, parse.String per kind, integral slices) and every case decoder, and every word list of arbitrary bytes through every encoder: no runtime panic (index, slice, nil, reflect misuse), loop and recursion bounds not exhausted",
            "note": "text half plus the type half for the sources that are encoded (env / flatten / string-cast with named types, see C11); file decoders (json/yaml/toml/cue) and pflag are outside",
            "design_ref": "DESIGN.md §4 C16",
        },
        "runs": [
            {"entry": PARSE + ".HarnessC16ParseTextQuick", "pkgs": TEXT, "must_reach": ["c16-text-end"], "loopcap": 300, "tiers": ["quick"]},
            {"entry": CC + ".HarnessC16DecodeQuick", "pkgs": LIBS + ["go/token"], "must_reach": ["c16-decode-end"], "loopcap": 300, "tiers": ["quick"]},
            {"entry": CC + ".HarnessC16EncodeQuick", "pkgs": LIBS + ["go/token"], "must_reach": ["c16-encode-end"], "loopcap": 300, "tiers": ["quick"]},
            {"entry": PARSE + ".HarnessC16MapKV", "pkgs": TEXT, "must_reach": ["c16-mapkv-end"], "loopcap": 300},
            {"entry": M + "/sources/flag/flaghelper.HarnessC16HelperSetQuick", "pkgs": HELP, "must_reach": ["c16-helper-set-end"], "loopcap": 400, "tiers": ["quick"]},
            {"entry": M + "/sources/flag/flaghelper.HarnessC16HelperSetThorough", "pkgs": HELP, "must_reach": ["c16-helper-set-end"], "loopcap": 400, "tiers": ["thorough"]},
            {"entry": M + "/transform.HarnessC10Embedded", "pkgs": TFP, "must_reach": ["c10-embedded-end"]},
            {"entry": M + "/sources/env.HarnessC16EnvNamedScalars", "pkgs": ENVP + ["sort"], "must_reach": ["c16-types-end"]},
            {"entry": M + "/sources/env.HarnessC16EnvNamedCollections", "pkgs": ENVP + ["sort"], "must_reach": ["c16-types-end"]},
            {"entry": M + "/sources/env.HarnessC16EnvPointers", "pkgs": ENVP + ["sort"], "must_reach": ["c16-types-end"]},
            {"entry": M + "/sources/env.HarnessC16EnvNamedElems", "pkgs": ENVP + ["sort"], "must_reach": ["c16-types-end"]},
            {"entry": M + "/sources/env.HarnessC16EnvOddTags", "pkgs": ENVP + ["sort"], "must_reach": ["c16-types-end"]},
            {"entry": M + "/tagformat.HarnessC16BadTag", "pkgs": ENVP + ["sort"], "must_reach": ["c16-badtag-error"]},
            {"entry": M + "/sources/env.HarnessC16EnvGen2", "pkgs": ENVP + ["sort"], "must_reach": ["c16-envgen-end"]},
            {"entry": M + "/sources/env.HarnessC16EnvGen3", "pkgs": ENVP + ["sort"], "must_reach": ["c16-envgen-end"], "tiers": ["thorough"]},
            {"entry": M + "/sources/env.HarnessC16EnvPtrGen2", "pkgs": ENVP + ["sort"], "must_reach": ["c16-envgen-end"]},
            {"entry": M + "/sources/flag.HarnessC16FlagGen2", "pkgs": FLAGP, "must_reach": ["c16-flaggen-end"]},
            {"entry": M + "/sources/flag.HarnessC16FlagNamed", "pkgs": FLAGP, "must_reach": ["c16-flag-named-end"]},
            {"entry": M + "/sources/pflag.HarnessC16PflagNamed", "pkgs": PFLAGP, "must_reach": ["c16-pflag-named-end"]},
            {"entry": M + "/sources/pflag.HarnessC16PflagGen2", "pkgs": PFLAGP, "must_reach": ["c16-pflaggen-end"]},
            {"entry": M + "/sources/flag.HarnessC16FlagPtrGen2", "pkgs": FLAGP, "must_reach": ["c16-flaggen-end"]},
            {"entry": M + "/sources/pflag.HarnessC16PflagPtrGen2", "pkgs": PFLAGP, "must_reach": ["c16-pflaggen-end"]},
            {"entry": M + "/sources/flag.HarnessC16FlagPtrLeaves", "pkgs": FLAGP, "must_reach": ["c16-flag-ptr-end"]},
            {"entry": M + "/transform.HarnessC10TypeSubst", "pkgs": TFP, "must_reach": ["c10-typesubst-end"]},
            {"entry": PARSE + ".HarnessC16ParseTextThorough", "pkgs": TEXT, "must_reach": ["c16-text-end"], "loopcap": 300, "tiers": ["thorough"]},
            {"entry": CC + ".HarnessC16DecodeThorough", "pkgs": LIBS + ["go/token"], "must_reach": ["c16-decode-end"], "loopcap": 300, "tiers": ["thorough"], "workers": 16},
            {"entry": CC + ".HarnessC16EncodeThorough", "pkgs": LIBS + ["go/token"], "must_reach": ["c16-encode-end"], "loopcap": 300, "tiers": ["thorough"]},
        ],
        "bounds": {"quick": "all byte strings of length <=2; word lists of <=2 words x <=1 byte; 4 env config types of named scalars / named collections / collections of named strings, bools, floats / user pointers (all subsets of variables); 1 flag config type of user-declared pointer leaves (nil and set template); loop header visits <=300 per frame, call depth <=400; generated named-type and pointer-shape families (11+12 shapes, <=2 fields) through env, flag, pflag; flag-helper Set on every byte string <=2; named complex / slice-kind text-unmarshaler flag leaves; second Value call; separator-only tags; type substitution with nil elements",
                   "thorough": "all byte strings of length <=3; words of <=2 bytes"},
        "outside": "longer inputs; float/complex text (strconv.ParseFloat on symbolic bytes is not explored); unicode predicates above U+00FF are uninterpreted",
        "assumptions": COMMON_ASSUME + ["text/scanner, strconv, strings, bytes, utf8 are interpreted from the toolchain's source"],
    },
    "C19": {
        "claim": {
            "text": "bounded model checking of the real caseconversion encoders/decoders: the six inverse laws are discharged by z3 for every byte value of every word list within the bound; Go-identifier decoding is checked for every identifier of <=2 (thorough 3) parts over the full initialisms list with symbolic letters",
            "note": "x/text cases.Title replaced by its ASCII contract (native replay uses the real one); unicode predicates via Latin-1 tables, uninterpreted above U+00FF; three known-finding classes (known_findings.json)",
            "design_ref": "DESIGN.md §4 C19",
        },
        "runs": [
            {"entry": CC + ".HarnessC19InverseQuick", "pkgs": LIBS, "tiers": ["quick"], "must_reach": ["c19-inverse-end"]},
            {"entry": CC + ".HarnessC19GoIdentQuick", "pkgs": LIBS + ["go/token"], "tiers": ["quick"], "must_reach": ["c19-goident-end"]},
            {"entry": CC + ".HarnessC19GoIdent3Small", "pkgs": LIBS + ["go/token"], "tiers": ["quick"], "must_reach": ["c19-goident-end"]},
            {"entry": CC + ".HarnessC19InverseThorough", "pkgs": LIBS, "tiers": ["thorough"], "must_reach": ["c19-inverse-end"]},
            {"entry": CC + ".HarnessC19GoIdentThorough", "pkgs": LIBS + ["go/token"], "tiers": ["thorough"], "must_reach": ["c19-goident-end"]},
        ],
        "bounds": {"quick": "word lists: W<=3, |w|<=3, total<=5 bytes; identifiers: <=2 parts, words [A-Z][a-z]{1,2}; single-part identifiers decoded twice with the first result overwritten in between",
                   "thorough": "word lists: W<=3, |w|<=4, total<=8 bytes; identifiers: <=3 parts, words [A-Z][a-z]{1,3}"},
        "outside": "longer words/lists; non-ASCII letters (unicode predicates above U+00FF are uninterpreted); x/text cases.Title replaced by its ASCII contract",
        "assumptions": COMMON_ASSUME + [
            "cases.Title(language.English, cases.NoLower).String(w) upper-cases the first byte of an ASCII word and changes nothing else (stub; the native replay uses the real x/text)",
            "unicode.Is*/To* are evaluated through Latin-1 tables generated from the toolchain's unicode package; runes >= U+0100 are uninterpreted",
        ],
    },
    "C20": {
        "claim": {
            "text": "bounded model checking of the real sourcewrap wrappers with the real transformer, string-casting mangler and parse code: initial value and every later (plain and blocking) update of a wrapped static/watching source arrive reverse-translated for every integer value, inner/translate errors propagate; Blank: every sequence of 3 operations from {SetSource plain, SetSource failing, SetSource watcher, Done} delegates to the most recent inner source, refuses to replace a watcher, and keeps the view consistent",
            "note": "mangler list = string casting (type-changing, so un-reversed values cannot pass); other mangler lists are covered by C10",
            "design_ref": "DESIGN.md §4 C20",
        },
        "runs": [
            {"entry": M + "/sourcewrap.HarnessC20TransformStatic", "pkgs": SW, "must_reach": ["c20-static-end", "c20-static-untranslatable"], "instrument": [M, M + "/sourcewrap"], "validate": 0},
            {"entry": M + "/sourcewrap.HarnessC20TransformWatch", "pkgs": SW, "must_reach": ["c20-watch-end"], "instrument": [M, M + "/sourcewrap"], "validate": 0},
            {"entry": M + "/sourcewrap.HarnessC20Decoder", "pkgs": SW, "must_reach": ["c20-decoder-end"]},
            {"entry": M + "/sourcewrap.HarnessC20Blank", "pkgs": SW, "must_reach": ["c20-blank-end", "c20-blank-done"], "instrument": [M, M + "/sourcewrap"], "validate": 0},
            {"entry": M + "/sourcewrap.HarnessC20BlankContexts", "pkgs": SW, "must_reach": ["c20-blank-ctx-end", "c20-blank-late-end", "c20-blank-eager-end"], "instrument": [M, M + "/sourcewrap"], "validate": 0},
            {"entry": M + "/sourcewrap.HarnessC20Slices", "pkgs": SW + ["github.com/fatih/structtag"], "must_reach": ["c20-slices-end"], "instrument": [M, M + "/sourcewrap"], "validate": 0},
            {"entry": M + "/sourcewrap.HarnessC20AnonFlatten", "pkgs": SW, "must_reach": ["c20-anon-end"], "instrument": [M, M + "/sourcewrap"], "validate": 0},
            {"entry": M + "/sourcewrap.HarnessC20BlankConcurrent", "pkgs": SW, "must_reach": ["c20-blank-conc-end"], "instrument": [M, M + "/sourcewrap"], "validate": 0},
            {"entry": M + "/sourcewrap.HarnessC20Flatten", "pkgs": ENVP, "must_reach": ["c20-flatten-end"], "instrument": [M, M + "/sourcewrap"], "validate": 0},
        ],
        "bounds": {"quick": "1 wrapped source (value- or pointer-returning), 3 updates, all int64 values; a decoder shared by 2 config types; Blank: 3 operations, SetSource contexts, SetSource after Done; slices of structs unset/empty/1 element initially and on update through a recursing mangler; anonymous-flatten wrapper, overlapping SetSource calls, eager inner watcher, element structs with embedded/unexported parts; SetSource(nil); an inner value that cannot be reverse-translated", "thorough": "same"},
        "outside": "other mangler lists on the watch path",
        "assumptions": CONC_ASSUME,
    },
}
