# Per-property check configuration: which harness entry points run in which tier, with which
# packages loaded from source (interpreted) and which bounds.
M = "github.com/vimeo/dials"
CC = M + "/tagformat/caseconversion"
LIBS = ["strings", "unicode/utf8", "strconv"]

NOT_APPLICABLE = {
    "C13": "verdict depends on encoding/json, yaml.v2, go-toml and the CUE evaluator, which cannot be encoded; with the decoders stubbed the check would decide the stub (DESIGN.md §5)",
    "C17": "verdict depends on kernel inotify, fsnotify, a real file system and real time; a stub for that environment would be the thing verified (DESIGN.md §5)",
}

PARSE = M + "/parse"
SW = [M, M + "/ptrify", M + "/common", M + "/transform", M + "/parse", "strings", "unicode/utf8", "strconv", "go/token"]
CORE = [M + "/ptrify", M + "/common", "strings", "unicode/utf8", "strconv", "go/token"]

CHECKS = {
    "SMOKE": {"runs": [{"entry": M + ".HarnessL1Smoke", "pkgs": CORE, "must_reach": ["smoke-end"]}]},
    "C04": {"runs": [
        {"entry": M + ".HarnessC04Quick", "pkgs": CORE, "must_reach": ["c04-end", "c04-config-rejected"], "instrument": [M], "validate": 0},
        {"entry": M + ".HarnessC04NonBlocking", "pkgs": CORE, "must_reach": ["c04-end"], "instrument": [M], "validate": 0},
    ]},
    "C06": {"runs": [
        {"entry": M + ".HarnessC06Quick", "pkgs": CORE, "must_reach": ["c06-end"], "instrument": [M], "validate": 0},
        {"entry": M + ".HarnessC06Unregister", "pkgs": CORE, "must_reach": ["c06-end"], "instrument": [M], "validate": 0},
    ]},
    "C07": {"runs": [
        {"entry": M + ".HarnessC07Quick", "pkgs": CORE, "must_reach": ["c07-end"], "instrument": [M], "validate": 0},
        {"entry": M + ".HarnessC07Second", "pkgs": CORE, "must_reach": ["c07-end"], "instrument": [M], "validate": 0},
    ]},
    "C08": {"runs": [
        {"entry": M + ".HarnessC08Quick", "pkgs": CORE, "must_reach": ["c08-end"], "instrument": [M], "validate": 0},
        {"entry": M + ".HarnessC08Seq2", "pkgs": CORE, "must_reach": ["c08-end"], "instrument": [M], "validate": 0},
        {"entry": M + ".HarnessC08DoubleUnregister", "pkgs": CORE, "must_reach": ["c08-double-unreg-end"], "instrument": [M], "validate": 0},
        {"entry": M + ".HarnessC08LateCalls", "pkgs": CORE, "must_reach": ["c08-late-end"], "instrument": [M], "validate": 0},
        {"entry": M + ".HarnessC08BlockedCallback", "pkgs": CORE, "must_reach": ["c08-blocked-end"], "instrument": [M], "validate": 0, "tiers": ["thorough"]},
    ]},
    "C09": {"runs": [
        {"entry": M + ".HarnessC09Quick", "pkgs": CORE, "must_reach": ["c09-end"], "instrument": [M], "validate": 0},
        {"entry": M + ".HarnessC09NoWatcher", "pkgs": CORE, "must_reach": ["c09-end"], "instrument": [M], "validate": 0},
    ]},
    "C20": {"runs": [
        {"entry": M + "/sourcewrap.HarnessC20TransformStatic", "pkgs": SW, "must_reach": ["c20-static-end"], "instrument": [M, M + "/sourcewrap"], "validate": 0},
        {"entry": M + "/sourcewrap.HarnessC20TransformWatch", "pkgs": SW, "must_reach": ["c20-watch-end"], "instrument": [M, M + "/sourcewrap"], "validate": 0},
        {"entry": M + "/sourcewrap.HarnessC20Blank", "pkgs": SW, "must_reach": ["c20-blank-end", "c20-blank-done"], "instrument": [M, M + "/sourcewrap"], "validate": 0},
    ]},
    "C01": {"runs": [
        {"entry": M + ".HarnessC01T1", "pkgs": CORE, "must_reach": ["c01-end"]},
        {"entry": M + ".HarnessC01T2", "pkgs": CORE, "must_reach": ["c01-end"]},
        {"entry": M + ".HarnessC01T3L1", "pkgs": CORE, "must_reach": ["c01-end"], "tiers": ["quick"]},
        {"entry": M + ".HarnessC01T4L1", "pkgs": CORE, "must_reach": ["c01-end"], "tiers": ["quick"]},
        {"entry": M + ".HarnessC01T5", "pkgs": CORE, "must_reach": ["c01-end"]},
        {"entry": M + ".HarnessC01T6", "pkgs": CORE, "must_reach": ["c01-end"]},
        {"entry": M + ".HarnessC01T7", "pkgs": CORE, "must_reach": ["c01-end"]},
        {"entry": M + ".HarnessC01T3", "pkgs": CORE, "must_reach": ["c01-end"], "tiers": ["thorough"]},
        {"entry": M + ".HarnessC01T4", "pkgs": CORE, "must_reach": ["c01-end"], "tiers": ["thorough"]},
        {"entry": M + ".HarnessC01T2L3", "pkgs": CORE, "must_reach": ["c01-end"], "tiers": ["thorough"]},
        {"entry": M + ".HarnessC01T7L3", "pkgs": CORE, "must_reach": ["c01-end"], "tiers": ["thorough"]},
    ]},
    "C02": {"runs": [
        {"entry": M + ".HarnessC02History2", "pkgs": CORE, "must_reach": ["c02-hist-end"], "instrument": [M], "validate": 0},
        {"entry": M + ".HarnessC01T4L1", "pkgs": CORE, "must_reach": ["c01-end"], "tiers": ["quick"]},
        {"entry": M + ".HarnessC01T3L1", "pkgs": CORE, "must_reach": ["c01-end"], "tiers": ["quick"]},
        {"entry": M + ".HarnessC01T6", "pkgs": CORE, "must_reach": ["c01-end"]},
        {"entry": M + ".HarnessC02History3", "pkgs": CORE, "must_reach": ["c02-hist-end"], "instrument": [M], "validate": 0, "tiers": ["thorough"]},
        {"entry": M + ".HarnessC01T4", "pkgs": CORE, "must_reach": ["c01-end"], "tiers": ["thorough"]},
        {"entry": M + ".HarnessC01T3", "pkgs": CORE, "must_reach": ["c01-end"], "tiers": ["thorough"]},
    ]},
    "C03": {"runs": [
        {"entry": M + ".HarnessC03A2", "pkgs": CORE, "must_reach": ["c03-end"]},
        {"entry": M + ".HarnessC03B2", "pkgs": CORE, "must_reach": ["c03-end"]},
        {"entry": M + ".HarnessC03C2", "pkgs": CORE, "must_reach": ["c03-end"]},
        {"entry": M + ".HarnessC03D2", "pkgs": CORE, "must_reach": ["c03-end"], "native_timeout": 120},
        {"entry": M + ".HarnessC03ConfigRecursive", "pkgs": CORE, "native_timeout": 120},
        {"entry": M + ".HarnessC03A3", "pkgs": CORE, "must_reach": ["c03-end"], "tiers": ["thorough"]},
    ]},
    "C05": {"runs": [
        {"entry": M + ".HarnessC05Quick", "pkgs": CORE, "must_reach": ["c05-end"], "instrument": [M], "validate": 0},
        {"entry": M + ".HarnessC05Seq", "pkgs": CORE, "must_reach": ["c05-end"], "instrument": [M], "validate": 0},
    ]},
    "C15": {
        "claim": {
            "text": "bounded model checking of the real parse package: for every 64-bit literal value, in every Go literal style and padding, the integral parsers accept it iff it is in the target type's range and then return exactly that value (solver-quantified over the value; strconv.ParseInt/ParseUint modelled by their documented contract with base and bit size checked)",
            "note": "strconv.ParseInt/ParseUint on opaque literals are contract stubs (base 0/10 rules, range clamp + ErrRange); floats, complex and durations are outside (strconv/time round-trips are not encoded)",
            "design_ref": "DESIGN.md §4 C15",
        },
        "runs": [
            {"entry": PARSE + ".HarnessC15IntSlices", "pkgs": LIBS, "must_reach": ["c15-signed-end", "c15-unsigned-end"],
             "bounds_text": "11 instantiations x 5 literal styles x paddings; value = any int64/uint64"},
            {"entry": PARSE + ".HarnessC15IntSliceWide", "pkgs": LIBS, "must_reach": ["c15-wide-end"], "bounds_text": "literals of magnitude 2^64; negative into unsigned"},
            {"entry": PARSE + ".HarnessC15IntSliceTwo", "pkgs": LIBS, "must_reach": ["c15-two-end"], "bounds_text": "two elements, each any int64, styles x paddings"},
        ],
        "bounds": {"quick": "1-2 elements; all 64-bit values; 5 literal styles; 4 paddings", "thorough": "same plus string-structure harnesses"},
        "outside": "floats/complex/durations; literals wider than 2^64 other than the probe; more than 2 elements",
        "assumptions": ["strconv.ParseInt/ParseUint contract stub on opaque literals (concrete and symbolic-byte strings run the real strconv)", "go/ssa + go/types front end, symgo executor semantics, z3 5.1.0"],
    },
    "C19": {
        "claim": {
            "text": "bounded model checking of the real caseconversion encoders/decoders: the six inverse laws are discharged by z3 for every byte value of every word list within the bound; Go-identifier decoding is checked for every identifier of <=2 (thorough 3) parts over the full initialisms list with symbolic letters",
            "note": "x/text cases.Title replaced by its ASCII contract (native replay uses the real one); unicode predicates via Latin-1 tables, uninterpreted above U+00FF; three known-finding classes (known_findings.json)",
            "design_ref": "DESIGN.md §4 C19",
        },
        "runs": [
            {"entry": CC + ".HarnessC19InverseQuick", "pkgs": LIBS, "tiers": ["quick"], "must_reach": ["c19-inverse-end"],
             "bounds_text": "6 schemes; <=3 words of 1..3 bytes, total <=5 bytes; every byte symbolic in [a-z][a-z0-9]*"},
            {"entry": CC + ".HarnessC19GoIdentQuick", "pkgs": LIBS + ["go/token"], "tiers": ["quick"], "must_reach": ["c19-goident-end"],
             "bounds_text": "identifiers of <=2 parts; part = any of the 38 initialisms or a capitalised word [A-Z][a-z]{1,2} with symbolic letters"},
            {"entry": CC + ".HarnessC19InverseThorough", "pkgs": LIBS, "tiers": ["thorough"], "must_reach": ["c19-inverse-end"],
             "bounds_text": "6 schemes; <=3 words of 1..4 bytes, total <=8 bytes"},
            {"entry": CC + ".HarnessC19GoIdentThorough", "pkgs": LIBS + ["go/token"], "tiers": ["thorough"], "must_reach": ["c19-goident-end"],
             "bounds_text": "identifiers of <=3 parts; words [A-Z][a-z]{1,3}"},
        ],
        "bounds": {"quick": "word lists: W<=3, |w|<=3, total<=5 bytes; identifiers: <=2 parts",
                   "thorough": "word lists: W<=3, |w|<=4, total<=8 bytes; identifiers: <=3 parts"},
        "outside": "longer words/lists; non-ASCII letters (unicode predicates above U+00FF are uninterpreted); x/text cases.Title replaced by its ASCII contract",
        "assumptions": [
            "cases.Title(language.English, cases.NoLower).String(w) upper-cases the first byte of an ASCII word and changes nothing else (stub; the native replay uses the real x/text)",
            "unicode.Is*/To* are evaluated through Latin-1 tables generated from the toolchain's unicode package; runes >= U+0100 are uninterpreted",
            "go/ssa + go/types front end, symgo executor semantics, z3 5.1.0",
        ],
    },
}
